//! Miri observer for the C bindings: `bindings/C/src/lib.rs` of the tree under test is
//! compiled into this crate, the callbacks are Rust `extern "C"` functions, so no FFI
//! boundary is crossed and Miri sees every pointer operation of the entry points.
#![allow(dead_code, clippy::all)]

#[path = "/repo/bindings/C/src/lib.rs"]
mod capi;

use capi::*;
use std::ffi::{CString, c_void};
use std::ptr::null_mut;

struct Sink {
    data: Vec<u8>,
    sched: Vec<u32>,
    calls: usize,
    fail_at: usize,
    flush_fail_at: usize,
    flushes: usize,
}

extern "C" fn wcb(buf: *const u8, len: u32, ctx: *mut c_void, written: *mut u32) -> i32 {
    let s = unsafe { &mut *(ctx.cast::<Sink>()) };
    s.calls += 1;
    if s.fail_at != 0 && s.calls == s.fail_at {
        return 5;
    }
    let mut n = len;
    if !s.sched.is_empty() {
        n = n.min(s.sched[(s.calls - 1) % s.sched.len()]).max(u32::from(len > 0));
    }
    s.data.extend_from_slice(unsafe { std::slice::from_raw_parts(buf, n as usize) });
    unsafe { *written = n };
    0
}
extern "C" fn fcb(ctx: *mut c_void) -> i32 {
    let s = unsafe { &mut *(ctx.cast::<Sink>()) };
    s.flushes += 1;
    if s.flush_fail_at != 0 && s.flushes == s.flush_fail_at { 7 } else { 0 }
}

struct Src {
    data: Vec<u8>,
    pos: usize,
    files: Vec<(Vec<u8>, *mut Sink)>,
    sched: Vec<u32>,
}
extern "C" fn rcb(buf: *mut u8, len: u32, ctx: *mut c_void, nread: *mut u32) -> i32 {
    let s = unsafe { &mut *(ctx.cast::<Src>()) };
    let mut n = (s.data.len() - s.pos).min(len as usize);
    if !s.sched.is_empty() && n > 0 {
        n = n.min(s.sched[s.pos % s.sched.len()] as usize).max(1);
    }
    unsafe { std::ptr::copy_nonoverlapping(s.data.as_ptr().add(s.pos), buf, n) };
    s.pos += n;
    unsafe { *nread = n as u32 };
    0
}
extern "C" fn scb(off: i64, whence: i32, ctx: *mut c_void, newpos: *mut u64) -> i32 {
    let s = unsafe { &mut *(ctx.cast::<Src>()) };
    let base = match whence {
        0 => 0i64,
        1 => s.pos as i64,
        _ => s.data.len() as i64,
    };
    let p = base + off;
    if p < 0 {
        return 22;
    }
    s.pos = p as usize;
    unsafe { *newpos = p as u64 };
    0
}
extern "C" fn filecb(ctx: *mut c_void, name: *const u8, len: usize, fw: *mut FileWriter) -> i32 {
    let s = unsafe { &mut *(ctx.cast::<Src>()) };
    let name = unsafe { std::slice::from_raw_parts(name, len) }.to_vec();
    let p: *mut Sink = Box::into_raw(Box::new(Sink { data: vec![], sched: s.sched.clone(), calls: 0, fail_at: 0, flush_fail_at: 0, flushes: 0 }));
    s.files.push((name, p));
    // same layout as the bindings' #[repr(C)] FileWriter (its fields are private to that module)
    #[repr(C)]
    struct Fw {
        w: Option<extern "C" fn(*const u8, u32, *mut c_void, *mut u32) -> i32>,
        f: Option<extern "C" fn(*mut c_void) -> i32>,
        ctx: *mut c_void,
    }
    unsafe {
        fw.cast::<Fw>().write(Fw { w: Some(wcb), f: Some(fcb), ctx: p.cast() });
    }
    0
}

fn b64(data: &[u8]) -> String {
    let t = b"ABCDEFGHIJKLMNOPQRSTUVWXYZabcdefghijklmnopqrstuvwxyz0123456789+/";
    let mut s = String::new();
    for c in data.chunks(3) {
        let b = [c[0], *c.get(1).unwrap_or(&0), *c.get(2).unwrap_or(&0)];
        s.push(t[(b[0] >> 2) as usize] as char);
        s.push(t[(((b[0] & 3) << 4) | (b[1] >> 4)) as usize] as char);
        s.push(if c.len() > 1 { t[(((b[1] & 15) << 2) | (b[2] >> 6)) as usize] as char } else { '=' });
        s.push(if c.len() > 2 { t[(b[2] & 63) as usize] as char } else { '=' });
    }
    s
}
fn keys() -> (CString, CString, [u8; 32]) {
    let sk = [0x42u8; 32];
    let pk = x25519_dalek::PublicKey::from(&x25519_dalek::StaticSecret::from(sk));
    let mut pubder = b"\x30\x2a\x30\x05\x06\x03\x2b\x65\x6e\x03\x21\x00".to_vec();
    pubder.extend_from_slice(pk.as_bytes());
    let mut privder = b"\x30\x2e\x02\x01\x00\x30\x05\x06\x03\x2b\x65\x6e\x04\x22\x04\x20".to_vec();
    privder.extend_from_slice(&sk);
    let pem = |tag: &str, d: &[u8]| format!("-----BEGIN {tag}-----\n{}\n-----END {tag}-----\n", b64(d));
    (CString::new(pem("PUBLIC KEY", &pubder)).unwrap(), CString::new(pem("PRIVATE KEY", &privder)).unwrap(), sk)
}

fn st(s: MLAStatus) -> u64 {
    s as u64
}

fn create(sched: Vec<u32>, fail_at: usize, flush_fail_at: usize) -> (Vec<u8>, Vec<u64>) {
    let (pubk, _, _) = keys();
    let mut statuses = vec![];
    let mut cfg: MLAConfigHandle = null_mut();
    statuses.push(st(mla_config_default_new(&mut cfg)));
    statuses.push(st(mla_config_set_compression_level(cfg, 1)));
    statuses.push(st(mla_config_add_public_keys(cfg, pubk.as_ptr())));
    let ctx: *mut Sink = Box::into_raw(Box::new(Sink { data: vec![], sched, calls: 0, fail_at, flush_fail_at, flushes: 0 }));
    let mut arch: MLAArchiveHandle = null_mut();
    statuses.push(st(mla_archive_new(&mut cfg, Some(wcb), Some(fcb), ctx.cast(), &mut arch)));
    assert!(cfg.is_null(), "config handle not cleared");
    if arch.is_null() {
        return (unsafe { Box::from_raw(ctx) }.data, statuses);
    }
    let n1 = CString::new("file one").unwrap();
    let n2 = CString::new("dir/é").unwrap();
    let mut f1: MLAArchiveFileHandle = null_mut();
    let mut f2: MLAArchiveFileHandle = null_mut();
    statuses.push(st(mla_archive_file_new(arch, n1.as_ptr(), &mut f1)));
    statuses.push(st(mla_archive_file_new(arch, n2.as_ptr(), &mut f2)));
    let d1: Vec<u8> = (0..700u32).map(|i| (i * 7) as u8).collect();
    let d2 = vec![0x33u8; 300];
    if !f1.is_null() && !f2.is_null() {
        statuses.push(st(mla_archive_file_append(arch, f1, d1.as_ptr(), 400)));
        statuses.push(st(mla_archive_file_append(arch, f2, d2.as_ptr(), 300)));
        statuses.push(st(mla_archive_flush(arch)));
        statuses.push(st(mla_archive_flush(arch)));
        statuses.push(st(mla_archive_file_append(arch, f1, d1[400..].as_ptr(), 300)));
        statuses.push(st(mla_archive_file_append(arch, f1, d1.as_ptr(), 0)));
        statuses.push(st(mla_archive_file_close(arch, &mut f1)));
        statuses.push(st(mla_archive_file_close(arch, &mut f2)));
        // handles cleared: a second close must be refused, not crash
        statuses.push(0x1000_0000 | st(mla_archive_file_close(arch, &mut f1)));
    }
    statuses.push(st(mla_archive_close(&mut arch)));
    statuses.push(0x1000_0000 | st(mla_archive_close(&mut arch)));
    (unsafe { Box::from_raw(ctx) }.data, statuses)
}

fn read_back(raw: &[u8]) {
    let (_, _, sk) = keys();
    let mut c = mla::config::ArchiveReaderConfig::new();
    c.add_private_keys(&[x25519_dalek::StaticSecret::from(sk)]);
    let mut r = mla::ArchiveReader::from_config(std::io::Cursor::new(raw), c).expect("archive created through the C entry points does not open");
    let mut f = r.get_file("file one".to_string()).unwrap().expect("file one missing");
    let mut d = vec![];
    std::io::Read::read_to_end(&mut f.data, &mut d).unwrap();
    let want: Vec<u8> = (0..700u32).map(|i| (i * 7) as u8).collect();
    assert_eq!(d, want, "content of 'file one' differs");
}

fn null_calls() {
    let (pubk, privk, _) = keys();
    let mut h: MLAArchiveFileHandle = null_mut();
    let b = [1u8, 2, 3];
    let mut bad = vec![];
    bad.push(st(mla_config_default_new(null_mut())));
    bad.push(st(mla_config_add_public_keys(null_mut(), pubk.as_ptr())));
    bad.push(st(mla_config_set_compression_level(null_mut(), 3)));
    bad.push(st(mla_reader_config_new(null_mut())));
    bad.push(st(mla_reader_config_add_private_key(null_mut(), privk.as_ptr())));
    bad.push(st(mla_archive_file_new(null_mut(), pubk.as_ptr(), &mut h)));
    bad.push(st(mla_archive_file_append(null_mut(), null_mut(), b.as_ptr(), 3)));
    bad.push(st(mla_archive_flush(null_mut())));
    bad.push(st(mla_archive_file_close(null_mut(), &mut h)));
    bad.push(st(mla_archive_close(null_mut())));
    let mut nullarch: MLAArchiveHandle = null_mut();
    bad.push(st(mla_archive_close(&mut nullarch)));
    // configuration handle already consumed / cleared
    let mut cleared: MLAConfigHandle = null_mut();
    let mut arch: MLAArchiveHandle = null_mut();
    bad.push(st(mla_archive_new(&mut cleared, Some(wcb), Some(fcb), null_mut(), &mut arch)));
    bad.push(st(mla_archive_new(null_mut(), Some(wcb), Some(fcb), null_mut(), &mut arch)));
    let mut cfg: MLAConfigHandle = null_mut();
    assert_eq!(st(mla_config_default_new(&mut cfg)), 0);
    bad.push(st(mla_archive_new(&mut cfg, None, Some(fcb), null_mut(), &mut arch)));
    bad.push(st(mla_archive_new(&mut cfg, Some(wcb), None, null_mut(), &mut arch)));
    bad.push(st(mla_archive_new(&mut cfg, Some(wcb), Some(fcb), null_mut(), null_mut())));
    let mut cleared2: MLAConfigHandle = null_mut();
    bad.push(st(mla_roarchive_extract(&mut cleared2, Some(rcb), Some(scb), Some(filecb), null_mut())));
    bad.push(st(mla_roarchive_extract(null_mut(), Some(rcb), Some(scb), Some(filecb), null_mut())));
    bad.push(st(mla_roarchive_info(None, null_mut(), null_mut())));
    for (i, s) in bad.iter().enumerate() {
        assert_ne!(*s, 0, "invalid call #{i} reported success");
    }
    // release what is still owned: a valid archive_new consumes the config
    let (pubk2, _, _) = keys();
    assert_eq!(st(mla_config_add_public_keys(cfg, pubk2.as_ptr())), 0);
    let ctx: *mut Sink = Box::into_raw(Box::new(Sink { data: vec![], sched: vec![], calls: 0, fail_at: 0, flush_fail_at: 0, flushes: 0 }));
    assert_eq!(st(mla_archive_new(&mut cfg, Some(wcb), Some(fcb), ctx.cast(), &mut arch)), 0);
    assert_eq!(st(mla_archive_close(&mut arch)), 0);
    drop(unsafe { Box::from_raw(ctx) });
}

fn extract(raw: Vec<u8>, sched: Vec<u32>) {
    let (_, privk, _) = keys();
    let mut rc: MLAConfigHandle = null_mut();
    assert_eq!(st(mla_reader_config_new(&mut rc)), 0);
    assert_eq!(st(mla_reader_config_add_private_key(rc, privk.as_ptr())), 0);
    // only ever touched through this raw pointer while the library may use it
    let ctx: *mut Src = Box::into_raw(Box::new(Src { data: raw, pos: 0, files: vec![], sched }));
    let mut info = std::mem::MaybeUninit::<ArchiveInfo>::uninit();
    assert_eq!(st(mla_roarchive_info(Some(rcb), ctx.cast(), info.as_mut_ptr())), 0);
    unsafe { (*ctx).pos = 0 };
    let s = st(mla_roarchive_extract(&mut rc, Some(rcb), Some(scb), Some(filecb), ctx.cast()));
    assert_eq!(s, 0, "extraction through the C entry points failed");
    assert!(rc.is_null());
    let src = unsafe { Box::from_raw(ctx) };
    let want: Vec<u8> = (0..700u32).map(|i| (i * 7) as u8).collect();
    let got = src.files.iter().find(|(n, _)| n == b"file one").expect("file one not handed over");
    assert_eq!(unsafe { &(*got.1).data }, &want, "bytes handed to the caller's writer differ");
    for (_, p) in &src.files {
        drop(unsafe { Box::from_raw(*p) });
    }
}

fn main() {
    let scenario: u32 = std::env::args().nth(1).and_then(|s| s.parse().ok()).unwrap_or(0);
    match scenario {
        0 => {
            let (raw, st) = create(vec![], 0, 0);
            assert!(st.iter().all(|s| *s == 0 || (*s & 0x1000_0000 != 0 && *s != 0x1000_0000)), "statuses {st:?}");
            read_back(&raw);
        }
        1 => {
            let (raw, st) = create(vec![1, 2, 3, 5, 7, 300], 0, 0);
            assert!(st.iter().all(|s| *s == 0 || (*s & 0x1000_0000 != 0 && *s != 0x1000_0000)), "statuses {st:?}");
            read_back(&raw);
        }
        2 => null_calls(),
        3 => {
            let (raw, _) = create(vec![17], 0, 0);
            extract(raw, vec![1, 9, 4096]);
        }
        4 => {
            // failing write callback: some call must report an error, nothing may crash
            let (_, st) = create(vec![64], 4, 0);
            assert!(st.iter().any(|s| *s & 0x0fff_ffff != 0), "write callback failure reported as success: {st:?}");
        }
        _ => {
            // failing flush callback, then the handle is used again
            let (_, st) = create(vec![], 0, 1);
            assert!(st.iter().any(|s| *s & 0x0fff_ffff != 0), "flush callback failure reported as success: {st:?}");
        }
    }
    println!("scenario {scenario} done");
}
