//! Anchors the model to the documentation: decodes `samples/archive_v1.mla`
//! and compares the intermediate values FORMAT.md prints. A disagreement is a
//! harness error, never a verdict.
use crate::consts::PROD;
use crate::fmt;

pub fn b64(s: &str) -> Vec<u8> {
    let t = b"ABCDEFGHIJKLMNOPQRSTUVWXYZabcdefghijklmnopqrstuvwxyz0123456789+/";
    let mut out = vec![];
    let mut acc = 0u32;
    let mut bits = 0;
    for c in s.bytes() {
        if c == b'=' {
            break;
        }
        let Some(v) = t.iter().position(|x| *x == c) else { continue };
        acc = (acc << 6) | v as u32;
        bits += 6;
        if bits >= 8 {
            bits -= 8;
            out.push((acc >> bits) as u8);
            acc &= (1 << bits) - 1;
        }
    }
    out
}

/// last 32 bytes of the DER body of a PEM X25519 private key
pub fn x25519_sk_from_pem(pem: &str) -> [u8; 32] {
    let body: String = pem.lines().filter(|l| !l.starts_with("-----")).collect();
    let der = b64(&body);
    der[der.len() - 32..].try_into().unwrap()
}

pub fn check(repo: &str) -> Result<String, String> {
    let a = std::fs::read(format!("{repo}/samples/archive_v1.mla")).map_err(|e| e.to_string())?;
    let pem = std::fs::read_to_string(format!("{repo}/samples/test_x25519_archive_v1.pem")).map_err(|e| e.to_string())?;
    let sk = x25519_sk_from_pem(&pem);
    let h = fmt::dec_header(&a)?;
    let e = h.enc.as_ref().ok_or("sample: not encrypted")?;
    let dk = fmt::dh_key(&sk, &e.eph_pub);
    let want_dh = "d3113e86";
    if !hex::encode(dk).starts_with(want_dh) {
        return Err(format!("dhkey {} does not start with {want_dh}", hex::encode(dk)));
    }
    let d = fmt::decode_archive(&PROD, &a, &[sk])?;
    let kd = hex::encode(d.key.unwrap());
    if !kd.starts_with("b7fc48ec") || !kd.ends_with("d222") {
        return Err(format!("kd {kd}"));
    }
    let ci = d.comp.as_ref().ok_or("sample: not compressed")?;
    if ci.sizes != vec![13333, 259, 14873] || ci.last_block_size != 3_209_399 {
        return Err(format!("sizes {:?} last {}", ci.sizes, ci.last_block_size));
    }
    let fl = d.stream.len() - 4 - d.footer_off;
    if fl != 18444 {
        return Err(format!("archive footer length {fl}"));
    }
    let ep = d.enc_plain.as_ref().unwrap();
    if hex::encode(&ep[..8]) != "9bffff3f6754af01" {
        return Err(format!("first decrypted bytes {}", hex::encode(&ep[..8])));
    }
    if d.walk.files.len() != 259 {
        return Err(format!("{} files", d.walk.files.len()));
    }
    Ok(format!(
        "model anchored on samples/archive_v1.mla: dhkey, kd, sizes {:?}, last_block_size {}, footer {}, {} blocks, {} files",
        ci.sizes,
        ci.last_block_size,
        fl,
        d.walk.blocks.len(),
        d.walk.files.len()
    ))
}

#[cfg(test)]
mod tests {
    #[test]
    fn anchor() {
        println!("{}", super::check("/repo").unwrap());
    }
}
