//! Writer programs (symbolic), names, data generators, and the reference map.
use crate::consts::{Sz, K};
use crate::prng::Rng;
use serde::{Deserialize, Serialize};
use std::collections::BTreeMap;

#[derive(Clone, Debug, PartialEq, Eq, Hash, Serialize, Deserialize)]
pub enum NameKind {
    /// short ascii name "f<n>"
    Plain(u32),
    Empty,
    /// multi-byte, combining and RTL characters
    Unicode(u32),
    /// exactly `n` bytes
    Long(u32),
    /// literal
    Lit(String),
}

impl NameKind {
    pub fn render(&self) -> String {
        match self {
            NameKind::Plain(n) => format!("f{n}"),
            NameKind::Empty => String::new(),
            NameKind::Unicode(n) => {
                let pool = ["é", "ü", "日本語", "e\u{301}", "שלום", "😀", " ", "\u{202e}", "ß", "/", "名"];
                let mut s = String::new();
                let mut x = *n as usize;
                for _ in 0..(3 + x % 5) {
                    s.push_str(pool[x % pool.len()]);
                    x = x / pool.len() + 7 * (x % 13) + 1;
                }
                s.push_str(&format!("-{n}"));
                s
            }
            NameKind::Long(n) => {
                let mut s = String::with_capacity(*n as usize);
                let mut i = 0u32;
                while (s.len() as u32) < *n {
                    s.push((b'a' + (i % 26) as u8) as char);
                    i += 1;
                }
                s
            }
            NameKind::Lit(s) => s.clone(),
        }
    }
}

#[derive(Clone, Copy, Debug, PartialEq, Eq, Hash, Serialize, Deserialize)]
pub enum DataKind {
    /// PRNG bytes (incompressible)
    Random,
    /// one repeated byte (maximally compressible)
    Constant(u8),
    /// word-like text from a small dictionary
    Text,
    /// short period
    Period(u32),
    /// random 24-byte markers separated by constant filler (C07)
    Marker,
    /// adversarial content: 64-byte units, each a well-formed FileContent block for the
    /// given file id (47 bytes of payload), so that the content parses as valid blocks
    /// at every 64-aligned offset
    Tiles(u64),
}

/// Deterministic content of file `f`: the first `len` bytes of an infinite stream
pub fn file_bytes(seed: u64, f: usize, kind: DataKind, len: usize) -> Vec<u8> {
    let mut rng = Rng::derive(seed, &[0xDA7A, f as u64]);
    match kind {
        DataKind::Random => rng.bytes(len),
        DataKind::Constant(b) => vec![b; len],
        DataKind::Text => {
            let words = [
                "archive", "layer", "block", "the", "of", "and", "encrypt", "compress", "data", "file", "reader", "writer",
                "offset", "\n", "multi", "tag",
            ];
            let mut v = Vec::with_capacity(len + 16);
            while v.len() < len {
                v.extend_from_slice(rng.pick(&words).as_bytes());
                v.push(b' ');
            }
            v.truncate(len);
            v
        }
        DataKind::Period(p) => {
            let p = p.max(1) as usize;
            let pat = rng.bytes(p);
            (0..len).map(|i| pat[i % p]).collect()
        }
        DataKind::Tiles(id) => {
            let mut unit = vec![0x01u8];
            unit.extend_from_slice(&id.to_le_bytes());
            unit.extend_from_slice(&47u64.to_le_bytes());
            unit.extend_from_slice(&[b'E'; 47]);
            (0..len).map(|i| unit[i % 64]).collect()
        }
        DataKind::Marker => {
            let mut v = Vec::with_capacity(len + 64);
            while v.len() < len {
                v.extend(rng.bytes(24));
                let fill = 40 + rng.usize_below(200);
                v.extend(std::iter::repeat(b'.').take(fill));
            }
            v.truncate(len);
            v
        }
    }
}

#[derive(Clone, Debug, PartialEq, Eq, Hash, Serialize, Deserialize)]
pub struct FileSpec {
    pub name: NameKind,
    pub data: DataKind,
}

#[derive(Clone, Debug, PartialEq, Eq, Hash, Serialize, Deserialize)]
pub enum Op {
    Start(usize),
    Append(usize, Sz),
    End(usize),
    /// start + one append + end
    Add(usize, Sz),
    Flush,
    Finalize,
}

#[derive(Clone, Debug, PartialEq, Eq, Hash, Serialize, Deserialize)]
pub struct Program {
    /// bit 0 ENCRYPT, bit 1 COMPRESS
    pub layers: u8,
    pub level: u32,
    pub nrecip: usize,
    pub files: Vec<FileSpec>,
    pub ops: Vec<Op>,
    pub seed: u64,
}

impl Program {
    pub fn fingerprint(&self) -> u64 {
        crate::prng::fnv(serde_json::to_string(self).unwrap().as_bytes())
    }

    /// total length appended to each file under constant set `k`
    pub fn totals(&self, k: &K) -> Vec<usize> {
        let mut t = vec![0usize; self.files.len()];
        for op in &self.ops {
            match op {
                Op::Append(f, s) | Op::Add(f, s) => t[*f] += s.eval(k) as usize,
                _ => {}
            }
        }
        t
    }

    /// name -> expected content, for the files that are started by the program
    pub fn expected(&self, k: &K) -> BTreeMap<String, Vec<u8>> {
        let totals = self.totals(k);
        let mut m = BTreeMap::new();
        for op in &self.ops {
            if let Op::Start(f) | Op::Add(f, _) = op {
                m.insert(self.files[*f].name.render(), file_bytes(self.seed, *f, self.files[*f].data, totals[*f]));
            }
        }
        m
    }

    pub fn is_nontrivial(&self, k: &K) -> bool {
        let nfiles = self.ops.iter().filter(|o| matches!(o, Op::Start(_) | Op::Add(..))).count();
        let npieces = self.ops.iter().filter(|o| matches!(o, Op::Append(..) | Op::Add(..))).count();
        let total: usize = self.totals(k).iter().sum();
        nfiles >= 2 || npieces >= 2 || total as u64 >= k.chunk
    }

    pub fn total_bytes(&self, k: &K) -> usize {
        self.totals(k).iter().sum()
    }
}

/// Framing overheads of the block stream
pub const START_HDR: usize = 17;
pub const CONTENT_HDR: usize = 17;
pub const EOF_BLK: usize = 41;

/// deterministic X25519 secret keys for recipients / wrong keys
pub fn secret_key(seed: u64, idx: usize) -> [u8; 32] {
    Rng::derive(seed, &[0x5EC2E7, idx as u64]).array32()
}

// ---------------------------------------------------------------- program generators

pub const LAYER_COMBOS: [u8; 4] = [0, 1, 2, 3];

/// One file, one piece
pub fn single_file(layers: u8, level: u32, sz: Sz, data: DataKind, seed: u64) -> Program {
    Program {
        layers,
        level,
        nrecip: 1,
        files: vec![FileSpec { name: NameKind::Plain(0), data }],
        ops: vec![Op::Add(0, sz), Op::Finalize],
        seed,
    }
}

/// A random program: `nfiles` files, interleaved pieces with sizes taken from `sizes`
pub fn random_program(rng: &mut Rng, layers: u8, level: u32, nfiles: usize, max_pieces: usize, sizes: &[Sz], flushes: bool) -> Program {
    let seed = rng.next();
    let mut files = Vec::new();
    for f in 0..nfiles {
        let name = match rng.below(12) {
            0 => NameKind::Unicode(rng.below(1000) as u32 + f as u32 * 1000),
            1 if f == 0 => NameKind::Empty,
            _ => NameKind::Plain(f as u32),
        };
        let data = match rng.below(6) {
            0 => DataKind::Constant(rng.below(256) as u8),
            1 => DataKind::Text,
            2 => DataKind::Period(1 + rng.below(40) as u32),
            _ => DataKind::Random,
        };
        files.push(FileSpec { name, data });
    }
    // schedule: each file has a list of pieces; interleave by random choice among started/unfinished
    let mut remaining: Vec<usize> = (0..nfiles).map(|_| rng.usize_below(max_pieces + 1)).collect();
    let mut started = vec![false; nfiles];
    let mut ended = vec![false; nfiles];
    let mut ops = Vec::new();
    let mut open: Vec<usize> = Vec::new();
    let mut next_to_start = 0usize;
    loop {
        let can_start = next_to_start < nfiles;
        if open.is_empty() && !can_start {
            break;
        }
        let choice = rng.below(10);
        if can_start && (open.is_empty() || choice < 3) {
            let f = next_to_start;
            next_to_start += 1;
            // sometimes use add (single piece)
            if rng.chance(1, 5) {
                ops.push(Op::Add(f, *rng.pick(sizes)));
                started[f] = true;
                ended[f] = true;
            } else {
                ops.push(Op::Start(f));
                started[f] = true;
                open.push(f);
            }
        } else if !open.is_empty() {
            let oi = rng.usize_below(open.len());
            let f = open[oi];
            if remaining[f] == 0 {
                ops.push(Op::End(f));
                ended[f] = true;
                open.swap_remove(oi);
            } else {
                // runs: append 1..3 pieces in a row for the same file
                let run = 1 + rng.usize_below(3.min(remaining[f]));
                for _ in 0..run {
                    ops.push(Op::Append(f, *rng.pick(sizes)));
                }
                remaining[f] -= run;
            }
        }
        if flushes && rng.chance(1, 6) {
            ops.push(Op::Flush);
        }
    }
    ops.push(Op::Finalize);
    Program { layers, level, nrecip: 1 + rng.usize_below(3), files, ops, seed }
}

/// Sizes around every edge of interest (symbolic, so valid for any constant set)
pub fn boundary_sizes(max_blocks: i64) -> Vec<Sz> {
    let mut v = vec![Sz::lit(0), Sz::lit(1), Sz::lit(2), Sz::lit(15), Sz::lit(16), Sz::lit(17), Sz::lit(40)];
    for d in [-41, -18, -17, -16, -1, 0, 1, 16, 17] {
        v.push(Sz::new(0, 1, d));
        v.push(Sz::new(0, 2, d));
    }
    for b in 1..=max_blocks {
        for d in [-18, -1, 0, 1] {
            v.push(Sz::new(b, 0, d));
        }
        v.push(Sz::new(b, -1, 0));
        v.push(Sz::new(b, 1, 0));
    }
    v
}

// ---------------------------------------------------------------- layout of the block stream

#[derive(Clone, Debug)]
pub struct Pt {
    /// start_hdr, content_hdr, piece_end, eof_hdr, eof_end, end_marker, footer_start, stream_end
    pub kind: &'static str,
    /// position in the block stream
    pub pos: u64,
    /// index (among Append/Add ops, in program order) of the last non-empty piece before this point
    pub piece: Option<usize>,
}

#[derive(Clone, Debug)]
pub struct Layout {
    pub points: Vec<Pt>,
    pub stream_len: u64,
}

/// Positions in the block stream that the reference writer produces for a valid program
pub fn layout(p: &Program, k: &K) -> Layout {
    struct St {
        pos: u64,
        pts: Vec<Pt>,
        current: Option<usize>,
        noffsets: Vec<u64>,
        last_piece: Option<usize>,
        piece_idx: usize,
    }
    let mut st = St { pos: 0, pts: Vec::new(), current: None, noffsets: vec![0; p.files.len()], last_piece: None, piece_idx: 0 };
    let mut started = vec![false; p.files.len()];
    fn pt(st: &mut St, kind: &'static str) {
        st.pts.push(Pt { kind, pos: st.pos, piece: st.last_piece });
    }
    fn start(st: &mut St, p: &Program, f: usize) {
        pt(st, "start_hdr");
        st.pos += START_HDR as u64 + p.files[f].name.render().len() as u64;
        st.current = Some(f);
        st.noffsets[f] = 1;
    }
    fn append(st: &mut St, f: usize, n: u64) {
        let idx = st.piece_idx;
        st.piece_idx += 1;
        if n == 0 {
            return;
        }
        if st.current != Some(f) {
            st.noffsets[f] += 1;
            st.current = Some(f);
        }
        pt(st, "content_hdr");
        st.pos += CONTENT_HDR as u64 + n;
        st.last_piece = Some(idx);
        pt(st, "piece_end");
    }
    fn end(st: &mut St, f: usize) {
        if st.current != Some(f) {
            st.noffsets[f] += 1;
            st.current = Some(f);
        }
        pt(st, "eof_hdr");
        st.pos += EOF_BLK as u64;
        pt(st, "eof_end");
    }
    for op in &p.ops {
        match op {
            Op::Start(f) => {
                started[*f] = true;
                start(&mut st, p, *f);
            }
            Op::Append(f, s) => append(&mut st, *f, s.eval(k)),
            Op::End(f) => end(&mut st, *f),
            Op::Add(f, s) => {
                started[*f] = true;
                start(&mut st, p, *f);
                append(&mut st, *f, s.eval(k));
                end(&mut st, *f);
            }
            Op::Flush => {}
            Op::Finalize => {
                pt(&mut st, "end_marker");
                st.pos += 1;
                pt(&mut st, "footer_start");
                let mut fl = 8u64;
                for f in 0..p.files.len() {
                    if started[f] {
                        fl += 8 + p.files[f].name.render().len() as u64 + 8 + 8 * st.noffsets[f] + 16;
                    }
                }
                st.pos += fl + 4;
                pt(&mut st, "stream_end");
            }
        }
    }
    Layout { points: st.pts, stream_len: st.pos }
}

/// Alignment classes hit by a program: "<kind>@<edge><delta>" for delta in -1,0,+1
pub fn alignment_classes(p: &Program, k: &K) -> Vec<String> {
    let edge = if p.layers & 2 != 0 {
        ("block", k.block)
    } else if p.layers & 1 != 0 {
        ("chunk", k.chunk)
    } else {
        return vec![];
    };
    let l = layout(p, k);
    let mut v = Vec::new();
    for pt in &l.points {
        if pt.pos == 0 {
            continue;
        }
        let d = pt.pos % edge.1;
        let delta = if d == 0 {
            "0"
        } else if d == 1 {
            "+1"
        } else if d == edge.1 - 1 {
            "-1"
        } else {
            continue;
        };
        v.push(format!("{}@{}{delta}", pt.kind, edge.0));
    }
    v.sort();
    v.dedup();
    v
}

impl Program {
    /// set the size of the `idx`-th piece (Append/Add in program order)
    pub fn set_piece(&mut self, idx: usize, sz: Sz) {
        let mut i = 0;
        for op in &mut self.ops {
            if let Op::Append(_, s) | Op::Add(_, s) = op {
                if i == idx {
                    *s = sz;
                    return;
                }
                i += 1;
            }
        }
    }
    pub fn piece(&self, idx: usize) -> Option<Sz> {
        self.ops.iter().filter_map(|op| if let Op::Append(_, s) | Op::Add(_, s) = op { Some(*s) } else { None }).nth(idx)
    }
    pub fn npieces(&self) -> usize {
        self.ops.iter().filter(|op| matches!(op, Op::Append(..) | Op::Add(..))).count()
    }
}
