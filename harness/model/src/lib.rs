pub mod anchor;
pub mod consts;
pub mod fmt;
pub mod prng;
pub mod prog;
