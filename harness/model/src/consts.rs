//! Constant sets (production and scaled) and symbolic sizes.
use serde::{Deserialize, Serialize};

pub const TAG: usize = 16;

#[derive(Clone, Copy, Debug, PartialEq, Eq, Serialize, Deserialize)]
pub struct K {
    pub cbuf: u64,
    pub chunk: u64,
    pub block: u64,
    pub fsbuf: u64,
    pub cache: u64,
}

pub const PROD: K = K {
    cbuf: 4096,
    chunk: 128 * 1024,
    block: 4 * 1024 * 1024,
    fsbuf: 4096,
    cache: 8 * 1024 * 1024,
};
pub const S1: K = K { cbuf: 32, chunk: 128, block: 1024, fsbuf: 64, cache: 2048 };
pub const S2: K = K { cbuf: 16, chunk: 64, block: 512, fsbuf: 32, cache: 1024 };
pub const S3: K = K { cbuf: 64, chunk: 256, block: 4096, fsbuf: 128, cache: 8192 };

impl K {
    pub fn name(&self) -> &'static str {
        if *self == PROD {
            "prod"
        } else if *self == S1 {
            "s1"
        } else if *self == S2 {
            "s2"
        } else if *self == S3 {
            "s3"
        } else {
            "custom"
        }
    }
    pub fn by_name(n: &str) -> Option<K> {
        match n {
            "prod" => Some(PROD),
            "s1" => Some(S1),
            "s2" => Some(S2),
            "s3" => Some(S3),
            _ => None,
        }
    }
    pub fn is_prod(&self) -> bool {
        *self == PROD
    }
    pub fn chunk_tag(&self) -> u64 {
        self.chunk + TAG as u64
    }
}

/// A size (or position) written relative to the nearest chunk / block edges:
/// `b*BLOCK + c*CHUNK + d`. The same triple instantiated with another constant
/// set keeps the distance (in bytes) to the chunk edge and the distance (in
/// chunks) to the block edge.
#[derive(Clone, Copy, Debug, PartialEq, Eq, Hash, Serialize, Deserialize)]
pub struct Sz {
    pub b: i64,
    pub c: i64,
    pub d: i64,
}

impl Sz {
    pub const fn new(b: i64, c: i64, d: i64) -> Sz {
        Sz { b, c, d }
    }
    pub const fn lit(d: i64) -> Sz {
        Sz { b: 0, c: 0, d }
    }
    pub fn eval(&self, k: &K) -> u64 {
        let v = self.b * k.block as i64 + self.c * k.chunk as i64 + self.d;
        if v < 0 {
            0
        } else {
            v as u64
        }
    }
    /// Decompose a concrete value for constant set `k`, choosing the nearest edges.
    pub fn from_concrete(n: u64, k: &K) -> Sz {
        let n = n as i64;
        let chunk = k.chunk as i64;
        let block = k.block as i64;
        // nearest chunk edge
        let mut q = n / chunk;
        let mut d = n - q * chunk;
        if d > chunk / 2 {
            q += 1;
            d -= chunk;
        }
        // q chunks = b blocks + c chunks, c nearest to a block edge
        let ratio = block / chunk;
        let mut b = q / ratio;
        let mut c = q - b * ratio;
        if c > ratio / 2 {
            b += 1;
            c -= ratio;
        }
        Sz { b, c, d }
    }
}

#[cfg(test)]
mod tests {
    use super::*;
    #[test]
    fn roundtrip() {
        for k in [S1, S2, S3, PROD] {
            for n in (0..3 * k.block + 7).step_by(if k.is_prod() { 1237 } else { 1 }) {
                let s = Sz::from_concrete(n, &k);
                assert_eq!(s.eval(&k), n);
                assert!(s.d.unsigned_abs() <= k.chunk / 2);
            }
        }
    }
}
