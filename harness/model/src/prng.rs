//! Small deterministic PRNG (splitmix64 seeding a xoshiro256**), no external crate.

#[derive(Clone, Debug)]
pub struct Rng {
    s: [u64; 4],
}

fn splitmix(x: &mut u64) -> u64 {
    *x = x.wrapping_add(0x9E37_79B9_7F4A_7C15);
    let mut z = *x;
    z = (z ^ (z >> 30)).wrapping_mul(0xBF58_476D_1CE4_E5B9);
    z = (z ^ (z >> 27)).wrapping_mul(0x94D0_49BB_1331_11EB);
    z ^ (z >> 31)
}

impl Rng {
    pub fn new(seed: u64) -> Self {
        let mut x = seed ^ 0x5851_F42D_4C95_7F2D;
        let s = [splitmix(&mut x), splitmix(&mut x), splitmix(&mut x), splitmix(&mut x)];
        Rng { s }
    }

    /// Independent stream derived from a seed and a list of labels
    pub fn derive(seed: u64, labels: &[u64]) -> Self {
        let mut x = seed;
        let mut acc = splitmix(&mut x);
        for l in labels {
            x ^= l.wrapping_mul(0xD6E8_FEB8_6659_FD93);
            acc ^= splitmix(&mut x);
        }
        Rng::new(acc)
    }

    pub fn next(&mut self) -> u64 {
        let result = self.s[1].wrapping_mul(5).rotate_left(7).wrapping_mul(9);
        let t = self.s[1] << 17;
        self.s[2] ^= self.s[0];
        self.s[3] ^= self.s[1];
        self.s[1] ^= self.s[2];
        self.s[0] ^= self.s[3];
        self.s[2] ^= t;
        self.s[3] = self.s[3].rotate_left(45);
        result
    }

    /// Uniform in [0, n) (n > 0)
    pub fn below(&mut self, n: u64) -> u64 {
        debug_assert!(n > 0);
        // multiply-shift; bias is irrelevant here
        ((u128::from(self.next()) * u128::from(n)) >> 64) as u64
    }

    pub fn range(&mut self, lo: i64, hi_incl: i64) -> i64 {
        lo + self.below((hi_incl - lo + 1) as u64) as i64
    }

    pub fn usize_below(&mut self, n: usize) -> usize {
        self.below(n as u64) as usize
    }

    pub fn chance(&mut self, num: u64, den: u64) -> bool {
        self.below(den) < num
    }

    pub fn pick<'a, T>(&mut self, v: &'a [T]) -> &'a T {
        &v[self.usize_below(v.len())]
    }

    pub fn fill(&mut self, buf: &mut [u8]) {
        let mut chunks = buf.chunks_exact_mut(8);
        for c in &mut chunks {
            c.copy_from_slice(&self.next().to_le_bytes());
        }
        let rem = chunks.into_remainder();
        if !rem.is_empty() {
            let b = self.next().to_le_bytes();
            rem.copy_from_slice(&b[..rem.len()]);
        }
    }

    pub fn bytes(&mut self, n: usize) -> Vec<u8> {
        let mut v = vec![0u8; n];
        self.fill(&mut v);
        v
    }

    pub fn array32(&mut self) -> [u8; 32] {
        let mut a = [0u8; 32];
        self.fill(&mut a);
        a
    }

    pub fn shuffle<T>(&mut self, v: &mut [T]) {
        for i in (1..v.len()).rev() {
            let j = self.usize_below(i + 1);
            v.swap(i, j);
        }
    }
}

/// FNV-1a 64, used for case fingerprints
pub fn fnv(data: &[u8]) -> u64 {
    let mut h: u64 = 0xcbf2_9ce4_8422_2325;
    for b in data {
        h ^= u64::from(*b);
        h = h.wrapping_mul(0x0000_0100_0000_01B3);
    }
    h
}

pub fn fnv_mix(h: u64, v: u64) -> u64 {
    let mut x = h ^ v.wrapping_mul(0x9E37_79B9_7F4A_7C15);
    x = (x ^ (x >> 29)).wrapping_mul(0xBF58_476D_1CE4_E5B9);
    x ^ (x >> 32)
}
