//! Independent implementation of MLA format v1, written from FORMAT.md only.
//! Shares no code with the `mla` crate. Encoder and decoder for every layer,
//! plus tolerant walkers used to compute bounds for truncated / altered data.

use crate::consts::{K, TAG};
use aes_gcm::aead::{Aead, KeyInit, Payload};
use aes_gcm::{Aes256Gcm, Nonce};
use hkdf::Hkdf;
use sha2::{Digest, Sha256};
use std::collections::BTreeMap;
use std::io::{Read, Write};
use x25519_dalek::{PublicKey, StaticSecret};

pub const MAGIC: &[u8; 3] = b"MLA";
pub const L_ENCRYPT: u8 = 1;
pub const L_COMPRESS: u8 = 2;
pub const T_START: u8 = 0x00;
pub const T_CONTENT: u8 = 0x01;
pub const T_END_OF_DATA: u8 = 0xFE;
pub const T_END_OF_FILE: u8 = 0xFF;
pub const HKDF_INFO: &[u8] = b"KEY DERIVATION";
pub const ECIES_NONCE: &[u8; 12] = b"ECIES NONCE0";

pub fn sha256(d: &[u8]) -> [u8; 32] {
    let mut h = Sha256::new();
    h.update(d);
    h.finalize().into()
}

fn le32(b: &[u8]) -> u32 {
    u32::from_le_bytes(b[..4].try_into().unwrap())
}
fn le64(b: &[u8]) -> u64 {
    u64::from_le_bytes(b[..8].try_into().unwrap())
}

// ------------------------------------------------------------------ keys

pub fn public_of(sk: &[u8; 32]) -> [u8; 32] {
    *PublicKey::from(&StaticSecret::from(*sk)).as_bytes()
}

pub fn dh_key(sk: &[u8; 32], pk: &[u8; 32]) -> [u8; 32] {
    let dh = StaticSecret::from(*sk).diffie_hellman(&PublicKey::from(*pk));
    let mut out = [0u8; 32];
    Hkdf::<Sha256>::new(None, dh.as_bytes())
        .expand(HKDF_INFO, &mut out)
        .expect("hkdf");
    out
}

pub fn gcm_seal(key: &[u8; 32], nonce: &[u8; 12], msg: &[u8]) -> Vec<u8> {
    Aes256Gcm::new_from_slice(key)
        .unwrap()
        .encrypt(Nonce::from_slice(nonce), Payload { msg, aad: b"" })
        .expect("gcm seal")
}

pub fn gcm_open(key: &[u8; 32], nonce: &[u8; 12], ct_and_tag: &[u8]) -> Option<Vec<u8>> {
    if ct_and_tag.len() < TAG {
        return None;
    }
    Aes256Gcm::new_from_slice(key)
        .unwrap()
        .decrypt(Nonce::from_slice(nonce), Payload { msg: ct_and_tag, aad: b"" })
        .ok()
}

pub fn chunk_nonce(prefix: &[u8; 8], idx: u32) -> [u8; 12] {
    let mut n = [0u8; 12];
    n[..8].copy_from_slice(prefix);
    n[8..].copy_from_slice(&idx.to_be_bytes());
    n
}

// ------------------------------------------------------------------ header

#[derive(Clone, Debug)]
pub struct EncHeader {
    pub eph_pub: [u8; 32],
    pub wrapped: Vec<([u8; 32], [u8; 16])>,
    pub nonce: [u8; 8],
}

#[derive(Clone, Debug)]
pub struct Header {
    pub version: u32,
    pub layers: u8,
    pub enc: Option<EncHeader>,
    pub len: usize,
}

pub fn enc_header(layers: u8, enc: Option<&EncHeader>) -> Vec<u8> {
    let mut o = Vec::new();
    o.extend_from_slice(MAGIC);
    o.extend_from_slice(&1u32.to_le_bytes());
    o.push(layers);
    match enc {
        None => o.push(0),
        Some(e) => {
            o.push(1);
            o.extend_from_slice(&e.eph_pub);
            o.extend_from_slice(&(e.wrapped.len() as u64).to_le_bytes());
            for (k, t) in &e.wrapped {
                o.extend_from_slice(k);
                o.extend_from_slice(t);
            }
            o.extend_from_slice(&e.nonce);
        }
    }
    o
}

/// ECIES wrapping of `key` for each recipient with the ephemeral secret `eph_sk`
pub fn wrap_key(eph_sk: &[u8; 32], recipients: &[[u8; 32]], key: &[u8; 32], nonce: &[u8; 8]) -> EncHeader {
    let mut wrapped = Vec::new();
    for r in recipients {
        let dk = dh_key(eph_sk, r);
        let ct = gcm_seal(&dk, ECIES_NONCE, key);
        let mut k = [0u8; 32];
        let mut t = [0u8; 16];
        k.copy_from_slice(&ct[..32]);
        t.copy_from_slice(&ct[32..]);
        wrapped.push((k, t));
    }
    EncHeader { eph_pub: public_of(eph_sk), wrapped, nonce: *nonce }
}

pub fn dec_header(raw: &[u8]) -> Result<Header, String> {
    if raw.len() < 9 {
        return Err("header: too short".into());
    }
    if &raw[..3] != MAGIC {
        return Err("header: bad magic".into());
    }
    let version = le32(&raw[3..]);
    if version != 1 {
        return Err(format!("header: version {version}"));
    }
    let layers = raw[7];
    if layers & !3 != 0 {
        return Err(format!("header: unknown layer bits {layers:#x}"));
    }
    let mut p = 8;
    let enc = match raw[p] {
        0 => {
            p += 1;
            None
        }
        1 => {
            p += 1;
            if raw.len() < p + 40 {
                return Err("header: truncated encryption config".into());
            }
            let eph_pub: [u8; 32] = raw[p..p + 32].try_into().unwrap();
            p += 32;
            let n = le64(&raw[p..]) as usize;
            p += 8;
            if n > (raw.len() - p) / 48 {
                return Err("header: recipient count beyond input".into());
            }
            let mut wrapped = Vec::new();
            for _ in 0..n {
                let k: [u8; 32] = raw[p..p + 32].try_into().unwrap();
                let t: [u8; 16] = raw[p + 32..p + 48].try_into().unwrap();
                wrapped.push((k, t));
                p += 48;
            }
            if raw.len() < p + 8 {
                return Err("header: truncated nonce".into());
            }
            let nonce: [u8; 8] = raw[p..p + 8].try_into().unwrap();
            p += 8;
            Some(EncHeader { eph_pub, wrapped, nonce })
        }
        x => return Err(format!("header: option tag {x}")),
    };
    if (layers & L_ENCRYPT != 0) != enc.is_some() {
        return Err("header: ENCRYPT bit and encryption config disagree".into());
    }
    Ok(Header { version, layers, enc, len: p })
}

pub fn unwrap_key(h: &EncHeader, sk: &[u8; 32]) -> Option<[u8; 32]> {
    let dk = dh_key(sk, &h.eph_pub);
    for (k, t) in &h.wrapped {
        let mut ct = Vec::with_capacity(48);
        ct.extend_from_slice(k);
        ct.extend_from_slice(t);
        if let Some(pt) = gcm_open(&dk, ECIES_NONCE, &ct) {
            return Some(pt.try_into().unwrap());
        }
    }
    None
}

// ------------------------------------------------------------------ encryption layer

pub fn enc_encrypt(k: &K, key: &[u8; 32], nonce: &[u8; 8], plain: &[u8]) -> Vec<u8> {
    let mut out = Vec::with_capacity(plain.len() + TAG * (plain.len() / k.chunk as usize + 1));
    if plain.is_empty() {
        // the writer always emits the tag of the (empty) current chunk
        out.extend(gcm_seal(key, &chunk_nonce(nonce, 0), b""));
        return out;
    }
    let n = plain.len().div_ceil(k.chunk as usize);
    for (i, ch) in plain.chunks(k.chunk as usize).enumerate() {
        out.extend(gcm_seal(key, &chunk_nonce(nonce, i as u32), ch));
        let _ = n;
    }
    // When the plaintext is an exact multiple of the chunk size, FORMAT.md's
    // writer description still ends the stream with the tag of the last full
    // chunk only (no extra empty chunk).
    out
}

#[derive(Clone, Debug)]
pub struct ChunkInfo {
    /// offset of the chunk ciphertext in the encrypted body
    pub off: usize,
    /// ciphertext length (without tag)
    pub len: usize,
    pub tag_ok: bool,
}

/// Decrypt the body of the encryption layer. Chunks whose tag does not verify
/// are decrypted anyway with the raw keystream (`plain` keeps its length) and
/// flagged. A final piece shorter than a tag is ignored (flagged by `trailing`).
pub struct EncDecoded {
    pub plain: Vec<u8>,
    pub chunks: Vec<ChunkInfo>,
    pub trailing: usize,
}

pub fn dec_encrypt(k: &K, key: &[u8; 32], nonce: &[u8; 8], body: &[u8]) -> EncDecoded {
    let ct = k.chunk as usize + TAG;
    let mut plain = Vec::with_capacity(body.len());
    let mut chunks = Vec::new();
    let mut trailing = 0;
    for (i, piece) in body.chunks(ct).enumerate() {
        if piece.len() < TAG {
            trailing = piece.len();
            break;
        }
        let n = chunk_nonce(nonce, i as u32);
        let dlen = piece.len() - TAG;
        match gcm_open(key, &n, piece) {
            Some(p) => {
                plain.extend_from_slice(&p);
                chunks.push(ChunkInfo { off: i * ct, len: dlen, tag_ok: true });
            }
            None => {
                plain.extend(ctr_keystream_xor(key, &n, &piece[..dlen]));
                chunks.push(ChunkInfo { off: i * ct, len: dlen, tag_ok: false });
            }
        }
    }
    EncDecoded { plain, chunks, trailing }
}

/// Raw AES-CTR part of GCM (counter starts at 2), via the aes-gcm crate: sealing
/// the ciphertext with the same key/nonce yields `ct xor keystream`.
pub fn ctr_keystream_xor(key: &[u8; 32], nonce: &[u8; 12], data: &[u8]) -> Vec<u8> {
    let mut v = gcm_seal(key, nonce, data);
    v.truncate(data.len());
    v
}

/// position in the encryption-layer plaintext -> position in the encrypted body
pub fn plain_to_body(k: &K, pos: u64) -> u64 {
    (pos / k.chunk) * (k.chunk + TAG as u64) + pos % k.chunk
}

// ------------------------------------------------------------------ compression layer

pub fn brotli_compress(data: &[u8], quality: u32) -> Vec<u8> {
    let mut out = Vec::new();
    {
        let mut w = brotli::CompressorWriter::new(&mut out, 4096, quality, 22);
        w.write_all(data).unwrap();
    }
    out
}

/// Same stream content, the encoder being fed `piece` bytes per write (as a writer that is
/// handed the data piecewise does): another valid encoding of the same bytes
pub fn brotli_compress_pieces(data: &[u8], quality: u32, piece: usize) -> Vec<u8> {
    let mut out = Vec::new();
    {
        let mut w = brotli::CompressorWriter::new(&mut out, 4096, quality, 22);
        for p in data.chunks(piece.max(1)) {
            w.write_all(p).unwrap();
        }
    }
    out
}

pub fn enc_sizes_footer(sizes: &[u32], last: u32) -> Vec<u8> {
    let mut o = Vec::new();
    o.extend_from_slice(&(sizes.len() as u64).to_le_bytes());
    for s in sizes {
        o.extend_from_slice(&s.to_le_bytes());
    }
    o.extend_from_slice(&last.to_le_bytes());
    let l = o.len() as u32;
    o.extend_from_slice(&l.to_le_bytes());
    o
}

pub fn enc_compress(k: &K, plain: &[u8], quality: &dyn Fn(usize) -> u32) -> Vec<u8> {
    enc_compress_pieces(k, plain, quality, usize::MAX)
}

pub fn enc_compress_pieces(k: &K, plain: &[u8], quality: &dyn Fn(usize) -> u32, write_piece: usize) -> Vec<u8> {
    let mut out = Vec::new();
    let mut sizes = Vec::new();
    let mut last = 0u32;
    for (i, piece) in plain.chunks(k.block as usize).enumerate() {
        let c = brotli_compress_pieces(piece, quality(i), write_piece);
        sizes.push(c.len() as u32);
        out.extend(c);
        last = piece.len() as u32;
    }
    out.extend(enc_sizes_footer(&sizes, last));
    out
}

#[derive(Clone, Debug)]
pub struct CompInfo {
    pub sizes: Vec<u32>,
    pub last_block_size: u32,
    /// offset of each compressed block in the compression-layer stream
    pub offsets: Vec<usize>,
    pub footer_off: usize,
}

pub fn brotli_decompress_all(data: &[u8]) -> Result<Vec<u8>, String> {
    let mut d = brotli::Decompressor::new(data, 4096);
    let mut o = Vec::new();
    d.read_to_end(&mut o).map_err(|e| format!("brotli: {e}"))?;
    Ok(o)
}

/// Decode as much as possible of a (possibly truncated) brotli stream: everything
/// the decoder can produce from these input bytes (streaming API, drained).
pub fn brotli_decompress_prefix(data: &[u8]) -> Vec<u8> {
    use brotli::writer::StandardAlloc;
    let mut state = brotli::BrotliState::new(StandardAlloc::default(), StandardAlloc::default(), StandardAlloc::default());
    let mut out = Vec::new();
    let mut buf = vec![0u8; 65536];
    let mut available_in = data.len();
    let mut input_offset = 0usize;
    loop {
        let mut available_out = buf.len();
        let mut output_offset = 0usize;
        let mut written = 0usize;
        let r = brotli::BrotliDecompressStream(
            &mut available_in,
            &mut input_offset,
            data,
            &mut available_out,
            &mut output_offset,
            &mut buf,
            &mut written,
            &mut state,
        );
        out.extend_from_slice(&buf[..output_offset]);
        match r {
            brotli::BrotliResult::NeedsMoreOutput => continue,
            // all input may be consumed while output is still pending: drain it
            brotli::BrotliResult::NeedsMoreInput if output_offset > 0 => continue,
            _ => break,
        }
    }
    out
}

/// Decode a prefix of the compression layer without its sizes footer: consecutive
/// brotli streams, each as far as its bytes allow (what a sequential reader can get)
pub fn dec_compress_streams_prefix(data: &[u8]) -> Vec<u8> {
    use brotli::writer::StandardAlloc;
    let mut out = Vec::new();
    let mut buf = vec![0u8; 65536];
    let mut available_in = data.len();
    let mut input_offset = 0usize;
    'streams: loop {
        let mut state = brotli::BrotliState::new(StandardAlloc::default(), StandardAlloc::default(), StandardAlloc::default());
        loop {
            let mut available_out = buf.len();
            let mut output_offset = 0usize;
            let mut written = 0usize;
            let r = brotli::BrotliDecompressStream(&mut available_in, &mut input_offset, data, &mut available_out, &mut output_offset, &mut buf, &mut written, &mut state);
            out.extend_from_slice(&buf[..output_offset]);
            match r {
                brotli::BrotliResult::NeedsMoreOutput => continue,
                brotli::BrotliResult::NeedsMoreInput if output_offset > 0 => continue,
                brotli::BrotliResult::ResultSuccess => {
                    if available_in == 0 {
                        break 'streams;
                    }
                    continue 'streams;
                }
                _ => break 'streams,
            }
        }
    }
    out
}

pub fn dec_compress(k: &K, inner: &[u8]) -> Result<(Vec<u8>, CompInfo), String> {
    let n = inner.len();
    if n < 4 {
        return Err("compress: no footer length".into());
    }
    let sl = le32(&inner[n - 4..]) as usize;
    if sl + 4 > n || sl < 12 {
        return Err(format!("compress: footer length {sl}"));
    }
    let si = &inner[n - 4 - sl..n - 4];
    let cnt = le64(si) as usize;
    if 8 + 4 * cnt + 4 != sl {
        return Err(format!("compress: footer length {sl} does not match count {cnt}"));
    }
    let sizes: Vec<u32> = (0..cnt).map(|i| le32(&si[8 + 4 * i..])).collect();
    let last = le32(&si[8 + 4 * cnt..]);
    let mut stream = Vec::new();
    let mut off = 0usize;
    let mut offsets = Vec::new();
    for (i, s) in sizes.iter().enumerate() {
        let s = *s as usize;
        if off + s > n - 4 - sl {
            return Err("compress: block beyond data".into());
        }
        offsets.push(off);
        let o = brotli_decompress_all(&inner[off..off + s])?;
        let want = if i + 1 < sizes.len() { k.block as usize } else { last as usize };
        if o.len() != want {
            return Err(format!("compress: block {i} decompresses to {} bytes, expected {want}", o.len()));
        }
        stream.extend(o);
        off += s;
    }
    if off + sl + 4 != n {
        return Err(format!("compress: {} unexplained bytes before the sizes footer", n - 4 - sl - off));
    }
    Ok((stream, CompInfo { sizes, last_block_size: last, offsets, footer_off: off }))
}

// ------------------------------------------------------------------ block stream

#[derive(Clone, Debug, PartialEq, Eq)]
pub enum Blk {
    Start { id: u64, name: Vec<u8> },
    Content { id: u64, data: Vec<u8> },
    End { id: u64, hash: [u8; 32] },
    EndOfData,
}

pub fn enc_blk(b: &Blk, o: &mut Vec<u8>) {
    match b {
        Blk::Start { id, name } => {
            o.push(T_START);
            o.extend_from_slice(&id.to_le_bytes());
            o.extend_from_slice(&(name.len() as u64).to_le_bytes());
            o.extend_from_slice(name);
        }
        Blk::Content { id, data } => {
            o.push(T_CONTENT);
            o.extend_from_slice(&id.to_le_bytes());
            o.extend_from_slice(&(data.len() as u64).to_le_bytes());
            o.extend_from_slice(data);
        }
        Blk::End { id, hash } => {
            o.push(T_END_OF_FILE);
            o.extend_from_slice(&id.to_le_bytes());
            o.extend_from_slice(hash);
        }
        Blk::EndOfData => o.push(T_END_OF_DATA),
    }
}

#[derive(Clone, Debug, PartialEq, Eq)]
pub struct FileInfoM {
    pub offsets: Vec<u64>,
    pub size: u64,
    pub eof_offset: u64,
}

pub type FooterM = Vec<(Vec<u8>, FileInfoM)>;

pub fn enc_footer(f: &FooterM) -> Vec<u8> {
    let mut o = Vec::new();
    o.extend_from_slice(&(f.len() as u64).to_le_bytes());
    for (name, fi) in f {
        o.extend_from_slice(&(name.len() as u64).to_le_bytes());
        o.extend_from_slice(name);
        o.extend_from_slice(&(fi.offsets.len() as u64).to_le_bytes());
        for x in &fi.offsets {
            o.extend_from_slice(&x.to_le_bytes());
        }
        o.extend_from_slice(&fi.size.to_le_bytes());
        o.extend_from_slice(&fi.eof_offset.to_le_bytes());
    }
    let l = o.len() as u32;
    o.extend_from_slice(&l.to_le_bytes());
    o
}

/// Encode blocks; returns the stream and the offset of each block
pub fn enc_blocks(blks: &[Blk]) -> (Vec<u8>, Vec<u64>) {
    let mut o = Vec::new();
    let mut offs = Vec::new();
    for b in blks {
        offs.push(o.len() as u64);
        enc_blk(b, &mut o);
    }
    (o, offs)
}

/// Footer as FORMAT.md defines it: per file the offsets of the first block of
/// each continuous run, the total size, and the offset of the end-of-file block.
pub fn make_footer(blks: &[Blk], offs: &[u64]) -> FooterM {
    let mut by_id: BTreeMap<u64, (Vec<u8>, FileInfoM)> = BTreeMap::new();
    let mut prev_id: Option<u64> = None;
    for (b, off) in blks.iter().zip(offs) {
        let id = match b {
            Blk::Start { id, name } => {
                by_id.insert(*id, (name.clone(), FileInfoM { offsets: vec![], size: 0, eof_offset: 0 }));
                *id
            }
            Blk::Content { id, .. } | Blk::End { id, .. } => *id,
            Blk::EndOfData => break,
        };
        if let Some(e) = by_id.get_mut(&id) {
            if prev_id != Some(id) {
                e.1.offsets.push(*off);
            }
            match b {
                Blk::Content { data, .. } => e.1.size += data.len() as u64,
                Blk::End { .. } => e.1.eof_offset = *off,
                _ => {}
            }
        }
        prev_id = Some(id);
    }
    by_id.into_values().collect()
}

#[derive(Clone, Debug)]
pub struct PBlk {
    pub off: usize,
    pub kind: u8,
    pub id: u64,
    /// for content: offset and length of the data; for start: of the name
    pub data_off: usize,
    pub data_len: usize,
}

#[derive(Clone, Debug, Default)]
pub struct FileM {
    pub id: u64,
    pub data: Vec<u8>,
    pub hash: Option<[u8; 32]>,
    pub ended: bool,
}

/// Tolerant walk of a (possibly truncated) block stream: everything that is
/// present counts. A partially present content block counts for the bytes
/// present; a partially present block header counts for nothing.
#[derive(Clone, Debug, Default)]
pub struct Walk {
    pub blocks: Vec<PBlk>,
    pub files: BTreeMap<String, FileM>,
    pub end_marker: bool,
    /// offset just after the last fully parsed block (or after the end marker)
    pub consumed: usize,
    /// why the walk stopped when it was not at the end marker
    pub stop: String,
}

pub fn walk(stream: &[u8]) -> Walk {
    let mut w = Walk::default();
    let mut names: BTreeMap<u64, String> = BTreeMap::new();
    let mut i = 0usize;
    let n = stream.len();
    loop {
        if i >= n {
            w.stop = "end of input".into();
            break;
        }
        match stream[i] {
            T_START => {
                if i + 17 > n {
                    w.stop = "partial start header".into();
                    break;
                }
                let id = le64(&stream[i + 1..]);
                let l = le64(&stream[i + 9..]);
                if l > 65536 || i + 17 + l as usize > n {
                    w.stop = "partial or oversized name".into();
                    break;
                }
                let l = l as usize;
                let name = match String::from_utf8(stream[i + 17..i + 17 + l].to_vec()) {
                    Ok(s) => s,
                    Err(_) => {
                        w.stop = "name not utf-8".into();
                        break;
                    }
                };
                if names.contains_key(&id) || w.files.contains_key(&name) {
                    w.stop = "id or name reuse".into();
                    break;
                }
                w.blocks.push(PBlk { off: i, kind: T_START, id, data_off: i + 17, data_len: l });
                names.insert(id, name.clone());
                w.files.insert(name, FileM { id, ..Default::default() });
                i += 17 + l;
                w.consumed = i;
            }
            T_CONTENT => {
                if i + 17 > n {
                    w.stop = "partial content header".into();
                    break;
                }
                let id = le64(&stream[i + 1..]);
                let l = le64(&stream[i + 9..]);
                let Some(name) = names.get(&id) else {
                    w.stop = "content for unknown id".into();
                    break;
                };
                let f = w.files.get_mut(name).unwrap();
                if f.ended {
                    w.stop = "content after end of file".into();
                    break;
                }
                let avail = (n - i - 17) as u64;
                let take = l.min(avail) as usize;
                f.data.extend_from_slice(&stream[i + 17..i + 17 + take]);
                w.blocks.push(PBlk { off: i, kind: T_CONTENT, id, data_off: i + 17, data_len: take });
                if (take as u64) < l {
                    w.stop = "partial content".into();
                    w.consumed = i + 17 + take;
                    break;
                }
                i += 17 + take;
                w.consumed = i;
            }
            T_END_OF_FILE => {
                if i + 41 > n {
                    w.stop = "partial end-of-file block".into();
                    break;
                }
                let id = le64(&stream[i + 1..]);
                let Some(name) = names.get(&id) else {
                    w.stop = "end for unknown id".into();
                    break;
                };
                let f = w.files.get_mut(name).unwrap();
                if f.ended {
                    w.stop = "double end of file".into();
                    break;
                }
                f.ended = true;
                f.hash = Some(stream[i + 9..i + 41].try_into().unwrap());
                w.blocks.push(PBlk { off: i, kind: T_END_OF_FILE, id, data_off: i + 9, data_len: 32 });
                i += 41;
                w.consumed = i;
            }
            T_END_OF_DATA => {
                w.blocks.push(PBlk { off: i, kind: T_END_OF_DATA, id: 0, data_off: i, data_len: 0 });
                w.end_marker = true;
                i += 1;
                w.consumed = i;
                break;
            }
            x => {
                w.stop = format!("unknown block type {x:#x}");
                break;
            }
        }
    }
    w
}

pub fn dec_footer(stream: &[u8]) -> Result<(FooterM, usize), String> {
    let n = stream.len();
    if n < 4 {
        return Err("footer: no length".into());
    }
    let fl = le32(&stream[n - 4..]) as usize;
    if fl + 4 > n || fl < 8 {
        return Err(format!("footer: length {fl}"));
    }
    let start = n - 4 - fl;
    let f = &stream[start..n - 4];
    let mut p = 0usize;
    let need = |p: usize, k: usize| -> Result<(), String> {
        if p + k > f.len() {
            Err("footer: truncated".to_string())
        } else {
            Ok(())
        }
    };
    need(p, 8)?;
    let cnt = le64(&f[p..]);
    p += 8;
    let mut out = Vec::new();
    for _ in 0..cnt {
        need(p, 8)?;
        let l = le64(&f[p..]) as usize;
        p += 8;
        need(p, l)?;
        let name = f[p..p + l].to_vec();
        p += l;
        need(p, 8)?;
        let no = le64(&f[p..]) as usize;
        p += 8;
        if no > (f.len() - p) / 8 {
            return Err("footer: offsets beyond data".into());
        }
        let mut offsets = Vec::with_capacity(no);
        for _ in 0..no {
            offsets.push(le64(&f[p..]));
            p += 8;
        }
        need(p, 16)?;
        let size = le64(&f[p..]);
        let eof_offset = le64(&f[p + 8..]);
        p += 16;
        out.push((name, FileInfoM { offsets, size, eof_offset }));
    }
    if p != f.len() {
        return Err("footer: trailing bytes".into());
    }
    Ok((out, start))
}

// ------------------------------------------------------------------ whole archive

#[derive(Clone, Debug)]
pub struct Decoded {
    pub header: Header,
    pub key: Option<[u8; 32]>,
    /// plaintext of the encryption layer (None when ENCRYPT is off)
    pub enc_plain: Option<Vec<u8>>,
    pub enc_chunks: Vec<ChunkInfo>,
    pub comp: Option<CompInfo>,
    /// block stream, footer included
    pub stream: Vec<u8>,
    pub walk: Walk,
    pub footer: FooterM,
    pub footer_off: usize,
}

impl Decoded {
    pub fn files(&self) -> BTreeMap<String, Vec<u8>> {
        self.walk.files.iter().map(|(k, v)| (k.clone(), v.data.clone())).collect()
    }
}

/// Strict decoding: every structural statement of FORMAT.md is checked.
pub fn decode_archive(k: &K, raw: &[u8], sks: &[[u8; 32]]) -> Result<Decoded, String> {
    let header = dec_header(raw)?;
    let body = &raw[header.len..];
    let mut key = None;
    let mut enc_plain = None;
    let mut enc_chunks = Vec::new();
    let after_enc: Vec<u8> = if let Some(e) = &header.enc {
        let kk = sks
            .iter()
            .find_map(|sk| unwrap_key(e, sk))
            .ok_or_else(|| "no recipient key matches".to_string())?;
        key = Some(kk);
        let d = dec_encrypt(k, &kk, &e.nonce, body);
        if d.trailing != 0 {
            return Err(format!("encrypt: {} trailing bytes shorter than a tag", d.trailing));
        }
        if d.chunks.is_empty() {
            return Err("encrypt: no chunk".into());
        }
        for (i, c) in d.chunks.iter().enumerate() {
            if !c.tag_ok {
                return Err(format!("encrypt: tag of chunk {i} does not verify under nonce||BE32({i})"));
            }
            if i + 1 < d.chunks.len() && c.len != k.chunk as usize {
                return Err(format!("encrypt: non-final chunk {i} has {} bytes", c.len));
            }
        }
        enc_chunks = d.chunks;
        enc_plain = Some(d.plain.clone());
        d.plain
    } else {
        body.to_vec()
    };
    let (stream, comp) = if header.layers & L_COMPRESS != 0 {
        let (s, ci) = dec_compress(k, &after_enc)?;
        (s, Some(ci))
    } else {
        (after_enc, None)
    };
    let w = walk(&stream);
    if !w.end_marker {
        return Err(format!("blocks: no end-of-data marker ({})", w.stop));
    }
    let (footer, footer_off) = dec_footer(&stream)?;
    if footer_off != w.consumed {
        return Err(format!("footer starts at {footer_off} but the end marker ends at {}", w.consumed));
    }
    // every file ended, hash correct
    for (name, f) in &w.files {
        if !f.ended {
            return Err(format!("file {name:?} has no end-of-file block"));
        }
        if f.hash != Some(sha256(&f.data)) {
            return Err(format!("file {name:?}: stored hash is not SHA-256 of the content"));
        }
    }
    // footer consistent with blocks
    if footer.len() != w.files.len() {
        return Err(format!("footer lists {} files, stream has {}", footer.len(), w.files.len()));
    }
    for (name, fi) in &footer {
        let name_s = String::from_utf8(name.clone()).map_err(|_| "footer: name not utf-8".to_string())?;
        let f = w.files.get(&name_s).ok_or_else(|| format!("footer names unknown file {name_s:?}"))?;
        if fi.size != f.data.len() as u64 {
            return Err(format!("footer size {} != content length {} for {name_s:?}", fi.size, f.data.len()));
        }
        // expected run starts
        let mut runs = Vec::new();
        let mut prev: Option<u64> = None;
        let mut eof = None;
        for b in &w.blocks {
            if b.kind == T_END_OF_DATA {
                break;
            }
            if b.id == f.id {
                if prev != Some(f.id) {
                    runs.push(b.off as u64);
                }
                if b.kind == T_END_OF_FILE {
                    eof = Some(b.off as u64);
                }
            }
            prev = Some(b.id);
        }
        if Some(fi.eof_offset) != eof {
            return Err(format!("footer eof_offset {} != {:?} for {name_s:?}", fi.eof_offset, eof));
        }
        check_offsets(&fi.offsets, &runs, &w, f.id).map_err(|e| format!("{e} for {name_s:?}"))?;
    }
    Ok(Decoded { header, key, enc_plain, enc_chunks, comp, stream, walk: w, footer, footer_off })
}

/// The offsets of a file must start with its start block, be increasing, each
/// point at a block of that file, and cover every run start (FORMAT.md's example
/// lists more offsets than run starts, which is accepted).
fn check_offsets(offsets: &[u64], runs: &[u64], w: &Walk, id: u64) -> Result<(), String> {
    if offsets.is_empty() || runs.is_empty() || offsets[0] != runs[0] {
        return Err(format!("footer offsets {offsets:?} do not start at the file's start block {runs:?}"));
    }
    for pair in offsets.windows(2) {
        if pair[0] >= pair[1] {
            return Err("footer offsets not increasing".into());
        }
    }
    for o in offsets {
        if !w.blocks.iter().any(|b| b.off as u64 == *o && b.id == id && b.kind != T_END_OF_DATA) {
            return Err(format!("footer offset {o} is not a block of the file"));
        }
    }
    for r in runs {
        if !offsets.contains(r) {
            return Err(format!("run starting at {r} missing from footer offsets"));
        }
    }
    Ok(())
}

// ------------------------------------------------------------------ model encoder front-end

#[derive(Clone, Debug)]
pub struct EncodeOpts {
    pub layers: u8,
    pub eph_sk: [u8; 32],
    pub recipients: Vec<[u8; 32]>,
    pub key: [u8; 32],
    pub nonce: [u8; 8],
    /// brotli quality per block index
    pub qualities: Vec<u32>,
    pub end_marker: bool,
}

/// Encode a full archive from blocks (the end marker / footer are added here)
pub fn encode_archive(k: &K, blks: &[Blk], footer_override: Option<&FooterM>, o: &EncodeOpts) -> Vec<u8> {
    let mut all: Vec<Blk> = blks.to_vec();
    let (mut stream, offs) = enc_blocks(&all);
    let footer = match footer_override {
        Some(f) => f.clone(),
        None => make_footer(&all, &offs),
    };
    if o.end_marker {
        all.push(Blk::EndOfData);
        stream.push(T_END_OF_DATA);
    }
    stream.extend(enc_footer(&footer));
    encode_layers(k, &stream, o)
}

pub fn encode_layers(k: &K, stream: &[u8], o: &EncodeOpts) -> Vec<u8> {
    let q = |i: usize| -> u32 {
        if o.qualities.is_empty() {
            5
        } else {
            o.qualities[i % o.qualities.len()]
        }
    };
    let after_comp = if o.layers & L_COMPRESS != 0 { enc_compress(k, stream, &q) } else { stream.to_vec() };
    let mut raw;
    if o.layers & L_ENCRYPT != 0 {
        let eh = wrap_key(&o.eph_sk, &o.recipients, &o.key, &o.nonce);
        raw = enc_header(o.layers, Some(&eh));
        raw.extend(enc_encrypt(k, &o.key, &o.nonce, &after_comp));
    } else {
        raw = enc_header(o.layers, None);
        raw.extend(after_comp);
    }
    raw
}

// ------------------------------------------------------------------ structural regions (for fault placement)

#[derive(Clone, Debug, serde::Serialize, serde::Deserialize)]
pub struct Region {
    pub kind: String,
    pub idx: usize,
    pub start: usize,
    pub end: usize,
}

/// Raw-offset regions of a valid archive. With encryption: header, chunk data
/// and tags. Without encryption the body is described by its own structure
/// (compressed blocks + sizes footer, or the block stream itself). Inner
/// structures are also mapped through the encryption layer when possible.
pub fn regions(k: &K, d: &Decoded, raw_len: usize) -> Vec<Region> {
    let mut r = Vec::new();
    let h = d.header.len;
    r.push(Region { kind: "header".into(), idx: 0, start: 0, end: h });
    let enc = d.header.enc.is_some();
    if enc {
        for (i, c) in d.enc_chunks.iter().enumerate() {
            r.push(Region { kind: "chunk_data".into(), idx: i, start: h + c.off, end: h + c.off + c.len });
            r.push(Region { kind: "chunk_tag".into(), idx: i, start: h + c.off + c.len, end: h + c.off + c.len + TAG });
        }
    }
    let map = |p: usize| -> usize {
        if enc {
            h + plain_to_body(k, p as u64) as usize
        } else {
            h + p
        }
    };
    if let Some(ci) = &d.comp {
        for (j, (o, s)) in ci.offsets.iter().zip(&ci.sizes).enumerate() {
            r.push(Region { kind: "comp_block".into(), idx: j, start: map(*o), end: map(*o + *s as usize) });
        }
        let inner_len = d.enc_plain.as_ref().map_or(raw_len - h, Vec::len);
        r.push(Region { kind: "sizes_footer".into(), idx: 0, start: map(ci.footer_off), end: map(inner_len) });
    } else {
        for (i, b) in d.walk.blocks.iter().enumerate() {
            let kind = match b.kind {
                T_START => "blk_start",
                T_CONTENT => "blk_content",
                T_END_OF_FILE => "blk_eof",
                _ => "end_marker",
            };
            let end = match b.kind {
                T_START | T_CONTENT => b.data_off + b.data_len,
                T_END_OF_FILE => b.off + 41,
                _ => b.off + 1,
            };
            r.push(Region { kind: kind.into(), idx: i, start: map(b.off), end: map(end) });
        }
        r.push(Region { kind: "footer".into(), idx: 0, start: map(d.footer_off), end: map(d.stream.len()) });
    }
    r
}

/// Classify a raw offset by the innermost region containing it
pub fn region_of(regions: &[Region], off: usize) -> (String, usize) {
    let mut best: Option<&Region> = None;
    for r in regions {
        if off >= r.start && off < r.end {
            match best {
                Some(b) if (b.end - b.start) <= (r.end - r.start) => {}
                _ => best = Some(r),
            }
        }
    }
    match best {
        Some(r) => (r.kind.clone(), r.idx),
        None => ("none".into(), 0),
    }
}
