//! Counting allocator: wrapper around the system allocator using atomics only.
//! It never allocates and never remembers addresses.
use std::alloc::{GlobalAlloc, Layout, System};
use std::sync::atomic::{AtomicU64, Ordering::Relaxed};

pub struct Counting;

static LIVE: AtomicU64 = AtomicU64::new(0);
static PEAK: AtomicU64 = AtomicU64::new(0);
static LARGEST: AtomicU64 = AtomicU64::new(0);
static REQUESTS: AtomicU64 = AtomicU64::new(0);
/// monotonic count of observable steps (allocator calls, reads / seeks / writes on the harness's
/// sources and sinks): the progress monitor's notion of "something happened"
pub static EVENTS: AtomicU64 = AtomicU64::new(0);

thread_local! {
    /// set on the monitor's own thread: its sampling is not a step of the case
    pub static IS_MONITOR: std::cell::Cell<bool> = const { std::cell::Cell::new(false) };
}

pub fn tick() {
    if !IS_MONITOR.try_with(std::cell::Cell::get).unwrap_or(true) {
        EVENTS.fetch_add(1, Relaxed);
    }
}

fn on_alloc(size: u64) {
    tick();
    REQUESTS.fetch_add(1, Relaxed);
    let live = LIVE.fetch_add(size, Relaxed) + size;
    PEAK.fetch_max(live, Relaxed);
    LARGEST.fetch_max(size, Relaxed);
}

unsafe impl GlobalAlloc for Counting {
    unsafe fn alloc(&self, l: Layout) -> *mut u8 {
        let p = unsafe { System.alloc(l) };
        if !p.is_null() {
            on_alloc(l.size() as u64);
        }
        p
    }
    unsafe fn alloc_zeroed(&self, l: Layout) -> *mut u8 {
        let p = unsafe { System.alloc_zeroed(l) };
        if !p.is_null() {
            on_alloc(l.size() as u64);
        }
        p
    }
    unsafe fn dealloc(&self, p: *mut u8, l: Layout) {
        unsafe { System.dealloc(p, l) };
        tick();
        LIVE.fetch_sub(l.size() as u64, Relaxed);
    }
    unsafe fn realloc(&self, p: *mut u8, l: Layout, new: usize) -> *mut u8 {
        let q = unsafe { System.realloc(p, l, new) };
        if !q.is_null() {
            LIVE.fetch_sub(l.size() as u64, Relaxed);
            on_alloc(new as u64);
        }
        q
    }
}

#[derive(Clone, Copy, Debug)]
pub struct Stats {
    pub live: u64,
    pub peak: u64,
    pub largest: u64,
    pub requests: u64,
}

/// start a measurement: peak := live, largest := 0
pub fn mark() -> Stats {
    let live = LIVE.load(Relaxed);
    PEAK.store(live, Relaxed);
    LARGEST.store(0, Relaxed);
    REQUESTS.store(0, Relaxed);
    Stats { live, peak: live, largest: 0, requests: 0 }
}

pub fn stats() -> Stats {
    Stats { live: LIVE.load(Relaxed), peak: PEAK.load(Relaxed), largest: LARGEST.load(Relaxed), requests: REQUESTS.load(Relaxed) }
}
