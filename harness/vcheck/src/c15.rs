//! C15 — streaming keeps memory bounded independently of the amount of data.
//! Every measurement runs in its own child process (counting allocator), so that
//! peaks are not polluted; the parent compares peaks across sizes.
use crate::alloc;
use crate::ctx::Ctx;
use crate::drv;
use mla::config::ArchiveWriterConfig;
use mla::{ArchiveFailSafeReader, ArchiveReader, ArchiveWriter};
use model::prng::Rng;
use model::prog::secret_key;
use serde::{Deserialize, Serialize};
use serde_json::{json, Value};
use std::collections::HashMap;
use std::io::{self, BufReader, Read, Write};
use x25519_dalek::{PublicKey, StaticSecret};

const FILES: usize = 4;

#[derive(Clone, Debug, Serialize, Deserialize)]
pub struct Case {
    /// write | repair | extract
    pub op: String,
    pub layers: u8,
    pub level: u32,
    /// constant | random
    pub data: String,
    /// sizes in MiB, increasing
    pub sizes_mib: Vec<u64>,
    /// interleaved (4 files, runs of 256 KiB in turn) | twoopen (everything in one append while another file is open) | oneblock (one file added in a single piece, as `mlar create` does)
    #[serde(default)]
    pub shape: String,
    /// extraction: all | subset (only one of the files is exported, the others are skipped)
    #[serde(default)]
    pub subset: bool,
    /// the data sources return at most this many bytes per read (0: whatever is asked)
    #[serde(default)]
    pub src_read: u32,
}

/// source generating bytes on the fly (no buffer proportional to the size)
struct Gen {
    left: u64,
    rng: Rng,
    constant: bool,
}
/// per-read limit of the generator sources of this (child) process
static SRC_READ: std::sync::atomic::AtomicU64 = std::sync::atomic::AtomicU64::new(0);
impl Read for Gen {
    fn read(&mut self, buf: &mut [u8]) -> io::Result<usize> {
        let lim = SRC_READ.load(std::sync::atomic::Ordering::Relaxed);
        let cap = if lim == 0 { buf.len() as u64 } else { lim.min(buf.len() as u64) };
        let n = cap.min(self.left) as usize;
        if self.constant {
            buf[..n].fill(0x5a);
        } else {
            self.rng.fill(&mut buf[..n]);
        }
        self.left -= n as u64;
        Ok(n)
    }
}

struct Discard(u64);
impl Write for Discard {
    fn write(&mut self, b: &[u8]) -> io::Result<usize> {
        self.0 += b.len() as u64;
        Ok(b.len())
    }
    fn flush(&mut self) -> io::Result<()> {
        Ok(())
    }
}

fn config(layers: u8, level: u32) -> (ArchiveWriterConfig, [u8; 32]) {
    let sk = secret_key(15, 0);
    let mut c = ArchiveWriterConfig::new();
    c.set_layers(drv::layers_of(layers));
    if layers & 2 != 0 {
        c.with_compression_level(level).unwrap();
    }
    if layers & 1 != 0 {
        c.add_public_keys(&[PublicKey::from(&StaticSecret::from(sk))]);
    }
    (c, sk)
}

fn write_archive<W: Write>(dest: W, layers: u8, level: u32, constant: bool, total: u64, shape: &str) -> Result<W, String> {
    let oneblock = shape == "oneblock";
    let (c, _) = config(layers, level);
    let mut w = ArchiveWriter::from_config(dest, c).map_err(|e| e.to_string())?;
    if shape == "manyparts" {
        // a file started, another one added and closed, then the first one fed in very many small parts:
        // one contiguous run, whatever the number of parts
        let a = w.start_file("file0").map_err(|e| e.to_string())?;
        w.add_file("file1", 1000, Gen { left: 1000, rng: Rng::new(2), constant }).map_err(|e| e.to_string())?;
        let part = 512u64;
        let mut left = total;
        let mut i = 0u64;
        while left > 0 {
            let n = part.min(left);
            w.append_file_content(a, n, Gen { left: n, rng: Rng::new(i), constant }).map_err(|e| e.to_string())?;
            left -= n;
            i += 1;
        }
        w.end_file(a).map_err(|e| e.to_string())?;
        w.finalize().map_err(|e| e.to_string())?;
        return Ok(w.into_raw());
    }
    if shape == "shortsource" {
        // the source ends long before the announced size: the call is refused; the writer goes on
        let a = w.start_file("file0").map_err(|e| e.to_string())?;
        let given = total / 16;
        if w.append_file_content(a, total, Gen { left: given, rng: Rng::new(1), constant }).is_ok() {
            return Err("a source shorter than announced was accepted".into());
        }
        let _ = w.end_file(a);
        let _ = w.add_file("file1", 1000, Gen { left: 1000, rng: Rng::new(2), constant });
        let _ = w.finalize();
        return Ok(w.into_raw());
    }
    if shape == "twoopen" {
        // two files open at once; the first receives everything in ONE append while the second is open
        let a = w.start_file("file0").map_err(|e| e.to_string())?;
        let b = w.start_file("file1").map_err(|e| e.to_string())?;
        w.append_file_content(b, 500, Gen { left: 500, rng: Rng::new(3), constant }).map_err(|e| e.to_string())?;
        w.append_file_content(a, total, Gen { left: total, rng: Rng::new(1), constant }).map_err(|e| e.to_string())?;
        w.append_file_content(b, 500, Gen { left: 500, rng: Rng::new(4), constant }).map_err(|e| e.to_string())?;
        w.end_file(a).map_err(|e| e.to_string())?;
        w.end_file(b).map_err(|e| e.to_string())?;
        w.finalize().map_err(|e| e.to_string())?;
        return Ok(w.into_raw());
    }
    if oneblock {
        // one big file in a single piece, plus a small one
        w.add_file("file0", total, Gen { left: total, rng: Rng::new(1), constant }).map_err(|e| e.to_string())?;
        w.add_file("file1", 1000, Gen { left: 1000, rng: Rng::new(2), constant }).map_err(|e| e.to_string())?;
        w.finalize().map_err(|e| e.to_string())?;
        return Ok(w.into_raw());
    }
    let mut ids = Vec::new();
    for f in 0..FILES {
        ids.push(w.start_file(&format!("file{f}")).map_err(|e| e.to_string())?);
    }
    // runs of a fixed size, their number growing with the total: what brotli keeps depends on how much one
    // append hands over (up to a 4 MiB block), which must not be mistaken for growth with the bytes streamed
    let per_run = (256u64 << 10).min(total / FILES as u64).max(1);
    let runs = (total / (FILES as u64 * per_run)).max(1) as usize;
    for r in 0..runs {
        for (f, id) in ids.iter().enumerate() {
            let src = Gen { left: per_run, rng: Rng::new((r * FILES + f) as u64), constant };
            w.append_file_content(*id, per_run, src).map_err(|e| e.to_string())?;
        }
    }
    for id in ids {
        w.end_file(id).map_err(|e| e.to_string())?;
    }
    w.finalize().map_err(|e| e.to_string())?;
    Ok(w.into_raw())
}

/// child process: one measurement, one JSON line
pub fn child(args: &[String]) {
    let get = |name: &str| args.iter().position(|a| a == name).and_then(|i| args.get(i + 1)).cloned().unwrap_or_default();
    let op = get("--op");
    let layers: u8 = get("--layers").parse().unwrap_or(0);
    let level: u32 = get("--level").parse().unwrap_or(5);
    let constant = get("--data") == "constant";
    let mib: u64 = get("--mib").parse().unwrap_or(8);
    let scratch = get("--scratch");
    let shape = get("--shape");
    let shape = shape.as_str();
    let subset = get("--subset") == "1";
    SRC_READ.store(get("--srcread").parse().unwrap_or(0), std::sync::atomic::Ordering::Relaxed);
    let total = mib << 20;
    let t0 = std::time::Instant::now();
    let res: Result<(alloc::Stats, alloc::Stats, u64), String> = (|| {
        if op == "write" {
            let m0 = alloc::mark();
            let d = write_archive(Discard(0), layers, level, constant, total, shape)?;
            return Ok((m0, alloc::stats(), d.0));
        }
        // archive in a scratch file (not measured)
        let path = format!("{scratch}/c15-{}-{op}-{layers}-{level}-{mib}-{constant}.mla", std::process::id());
        {
            let f = io::BufWriter::new(std::fs::File::create(&path).map_err(|e| e.to_string())?);
            let mut f = write_archive(f, layers, level, constant, total, shape)?;
            f.flush().map_err(|e| e.to_string())?;
        }
        let (_, sk) = config(layers, level);
        let r = (|| -> Result<(alloc::Stats, alloc::Stats, u64), String> {
            let file = std::fs::File::open(&path).map_err(|e| e.to_string())?;
            if op == "repair" {
                let m0 = alloc::mark();
                let mut fs = ArchiveFailSafeReader::from_config(BufReader::with_capacity(65536, file), drv::reader_config(&[sk])).map_err(|e| e.to_string())?;
                let (c, _) = config(0, 0);
                let mut out = ArchiveWriter::from_config(Discard(0), c).map_err(|e| e.to_string())?;
                let st = fs.convert_to_archive(&mut out).map_err(|e| e.to_string())?;
                if !matches!(st, mla::errors::FailSafeReadError::EndOfOriginalArchiveData) {
                    return Err(format!("repair status {st:?}"));
                }
                let n = out.into_raw().0;
                Ok((m0, alloc::stats(), n))
            } else {
                let m0 = alloc::mark();
                let mut ar = ArchiveReader::from_config(file, drv::reader_config(&[sk])).map_err(|e| e.to_string())?;
                let mut names: Vec<String> = ar.list_files().map_err(|e| e.to_string())?.cloned().collect();
                names.sort();
                if subset {
                    // keep only the last (smallest, in the oneblock shape) file: the others are skipped
                    names = names.split_off(names.len() - 1);
                }
                let mut export: HashMap<&String, Discard> = names.iter().map(|n| (n, Discard(0))).collect();
                mla::helpers::linear_extract(&mut ar, &mut export).map_err(|e| e.to_string())?;
                let n: u64 = export.values().map(|d| d.0).sum();
                Ok((m0, alloc::stats(), n))
            }
        })();
        let _ = std::fs::remove_file(&path);
        r
    })();
    match res {
        Ok((m0, m1, n)) => println!(
            "{}",
            json!({"op": op, "layers": layers, "level": level, "mib": mib, "peak_growth": m1.peak.saturating_sub(m0.live), "largest": m1.largest, "requests": m1.requests, "bytes_out": n, "wall_s": t0.elapsed().as_secs_f64()})
        ),
        Err(e) => println!("{}", json!({"error": e})),
    }
}

pub fn cases(ctx: &Ctx) -> Vec<Case> {
    let mut v = Vec::new();
    if !ctx.k.is_prod() {
        return v;
    }
    // the smallest size is past the warm-up of the encoder (its buffers reach their final size after a
    // few 4 MiB blocks: 13.3 MB at 8 MiB, 15.97 MB from 16 MiB on at level 5); the statement itself compares 64 MiB and 1 GiB
    let sizes: Vec<u64> = if ctx.quick() { vec![32, 128] } else { vec![64, 256, 1024] };
    let levels: Vec<u32> = if ctx.quick() { vec![1, 5] } else { vec![0, 5, 9] };
    for op in ["write", "repair", "extract"] {
        for layers in [0u8, 1, 2, 3] {
            for &level in &levels {
                if layers & 2 == 0 && level != levels[0] {
                    continue;
                }
                for data in ["random", "constant"] {
                    if ctx.quick() && data == "constant" && level != levels[0] {
                        continue;
                    }
                    let mut s = sizes.clone();
                    // 1 GiB of incompressible data through brotli quality 9 takes several minutes
                    if level >= 9 && data == "random" {
                        s.retain(|m| *m <= 256);
                    }
                    for shape in ["interleaved", "oneblock"] {
                        // the second shape on a reduced matrix
                        if shape == "oneblock" && (data == "random" && level != levels[0]) {
                            continue;
                        }
                        v.push(Case { op: op.into(), layers, level, data: data.into(), sizes_mib: s.clone(), shape: shape.into(), subset: false, src_read: 0 });
                        if op == "extract" {
                            v.push(Case { op: op.into(), layers, level, data: data.into(), sizes_mib: s.clone(), shape: shape.into(), subset: true, src_read: 0 });
                        }
                    }
                    if op != "write" && level == levels[0] {
                        // reading back / repairing a big file stored as a long run of 512-byte blocks
                        v.push(Case { op: op.into(), layers, level, data: data.into(), sizes_mib: s.clone(), shape: "manyparts".into(), subset: false, src_read: 0 });
                    }
                    if op == "write" && level == levels[0] {
                        v.push(Case { op: op.into(), layers, level, data: data.into(), sizes_mib: s.clone(), shape: "manyparts".into(), subset: false, src_read: 0 });
                        v.push(Case { op: op.into(), layers, level, data: data.into(), sizes_mib: s.clone(), shape: "shortsource".into(), subset: false, src_read: 0 });
                    }
                    // writer only: one huge append while another file is open; sources that return short reads
                    if op == "write" && level == levels[0] {
                        v.push(Case { op: op.into(), layers, level, data: data.into(), sizes_mib: s.clone(), shape: "twoopen".into(), subset: false, src_read: 0 });
                        for (i, sr) in [1000u32, 4095, 8191, 65535, 1].into_iter().enumerate() {
                            if sr == 1 && !(data == "constant" && layers == 0) {
                                continue; // one byte per read: slow, one configuration is enough
                            }
                            let shape = if i % 2 == 0 { "oneblock" } else { "twoopen" };
                            v.push(Case { op: op.into(), layers, level, data: data.into(), sizes_mib: if sr == 1 { vec![4, 16] } else { s.clone() }, shape: shape.into(), subset: false, src_read: sr });
                        }
                    }
                }
            }
        }
    }
    v
}

/// ceilings (bytes), frozen from measurements on the unchanged tree with a factor 2:
/// writer: brotli encoder (window 2^22 + hash tables, by quality); repair: 8 MiB
/// aggregation buffer + decoder; extraction: decoder + chunk caches
fn ceiling(op: &str, layers: u8, level: u32) -> u64 {
    const MIB: u64 = 1 << 20;
    let comp = layers & 2 != 0;
    match (op, comp) {
        ("write", false) => 2 * MIB,
        ("write", true) => match level {
            0..=1 => 8 * MIB,
            2..=4 => 48 * MIB,
            5..=9 => 64 * MIB,
            _ => 200 * MIB,
        },
        ("repair", false) => 20 * MIB,
        ("repair", true) => 32 * MIB,
        (_, false) => 4 * MIB,
        (_, true) => 20 * MIB,
    }
}

pub fn run_case(ctx: &mut Ctx, c: &Case) {
    // the work happens in child processes, possibly for minutes (1 GiB through brotli)
    crate::ctx::CASE_START_MS.store(0, std::sync::atomic::Ordering::Relaxed);
    let exe = std::env::current_exe().expect("exe");
    let scratch = ctx.out_dir.clone().unwrap_or_else(|| "/verif/scratch".into());
    let mut results: Vec<(u64, Value)> = Vec::new();
    for &mib in &c.sizes_mib {
        if !ctx.time_left() {
            break;
        }
        let out = std::process::Command::new(&exe)
            .args(["c15child", "--op", &c.op, "--layers", &c.layers.to_string(), "--level", &c.level.to_string(), "--data", &c.data, "--mib", &mib.to_string(), "--scratch", &scratch, "--shape", &c.shape, "--subset", if c.subset { "1" } else { "0" }, "--srcread", &c.src_read.to_string()])
            .stderr(std::process::Stdio::null())
            .output();
        let Ok(out) = out else { continue };
        let line = String::from_utf8_lossy(&out.stdout);
        let Some(v) = line.lines().filter_map(|l| serde_json::from_str::<Value>(l).ok()).last() else {
            ctx.inconclusive("c15-child-died", json!({"case": c, "mib": mib, "status": format!("{:?}", out.status)}));
            continue;
        };
        if let Some(e) = v["error"].as_str() {
            ctx.violation("C01", "c15-operation-failed", json!({"case": c, "k": "prod"}), json!({"error": e, "mib": mib}));
            continue;
        }
        ctx.eval(model::prng::fnv(format!("{c:?}{mib}").as_bytes()), true);
        ctx.add("bytes_streamed_mib", mib);
        results.push((mib, v));
    }
    let scen = || json!({"case": c, "k": "prod"});
    let table: Vec<Value> = results.iter().map(|(m, v)| json!({"mib": m, "peak_growth": v["peak_growth"], "wall_s": v["wall_s"]})).collect();
    ctx.sample(|| json!({"case": c, "measurements": table}));
    println!("{}", json!({"k": "c15row", "op": c.op, "layers": c.layers, "level": c.level, "data": c.data, "rows": table}));
    let cl = ceiling(&c.op, c.layers, c.level);
    for (mib, v) in &results {
        let peak = v["peak_growth"].as_u64().unwrap_or(0);
        ctx.max(&format!("peak:{}:layers{}:level{}", c.op, c.layers, c.level), peak);
        if peak > cl {
            ctx.violation("C15", &format!("above-ceiling:{}:layers{}", c.op, c.layers), scen(), json!({"mib": mib, "peak_live_growth": peak, "ceiling": cl}));
        }
    }
    if results.len() >= 2 {
        ctx.count(&format!("growth_comparisons:{}", c.op));
        ctx.count(&format!("shape:{}{}", if c.shape.is_empty() { "interleaved" } else { &c.shape }, if c.subset { ":subset_extraction" } else { "" }));
        if c.src_read != 0 {
            ctx.count("sources_with_short_reads");
        }
        let (m1, v1) = &results[0];
        let (m2, v2) = &results[results.len() - 1];
        let p1 = v1["peak_growth"].as_u64().unwrap_or(0);
        let p2 = v2["peak_growth"].as_u64().unwrap_or(0);
        // without compression the writer holds next to nothing: a tighter tolerance there
        let tol: u64 = if c.op == "write" && c.layers & 2 == 0 { 256 << 10 } else { 2 << 20 };
        if p2 > p1 + tol {
            ctx.violation("C15", &format!("grows-with-data:{}:layers{}", c.op, c.layers), scen(), json!({"sizes_mib": [m1, m2], "peak_live_growth": [p1, p2]}));
        }
    }
}

pub fn run(ctx: &mut Ctx) {
    let cs = cases(ctx);
    for (i, c) in cs.iter().enumerate() {
        if !ctx.mine(i as u64) {
            continue;
        }
        if !ctx.time_left() {
            break;
        }
        if ctx.journal(&json!({"prop": "C15", "scenario": {"case": c, "k": "prod"}})) {
            run_case(ctx, c);
        }
    }
}

pub fn replay(ctx: &mut Ctx, scenario: &Value) -> Result<(), String> {
    let c: Case = serde_json::from_value(scenario["case"].clone()).map_err(|e| e.to_string())?;
    run_case(ctx, &c);
    Ok(())
}
