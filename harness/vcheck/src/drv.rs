//! Drivers around the public API of the `mla` crate under test.
use mla::config::{ArchiveReaderConfig, ArchiveWriterConfig};
use mla::errors::FailSafeReadError;
use mla::{ArchiveFailSafeReader, ArchiveReader, ArchiveWriter, Layers};
use model::consts::K;
use model::prng::Rng;
use model::prog::{file_bytes, secret_key, Op, Program};
use std::cell::RefCell;
use std::collections::BTreeMap;
use std::io::{self, Cursor, Read, Seek, SeekFrom, Write};
use std::rc::Rc;
use x25519_dalek::{PublicKey, StaticSecret};

/// The constant set compiled into the library under test
pub fn compiled_k() -> K {
    #[cfg(feature = "scaled")]
    {
        K {
            cbuf: mla::verif::CIPHER_BUF_SIZE,
            chunk: mla::verif::CHUNK_SIZE,
            block: u64::from(mla::verif::UNCOMPRESSED_DATA_SIZE),
            fsbuf: mla::verif::FAIL_SAFE_BUFFER_SIZE as u64,
            cache: mla::verif::CACHE_SIZE as u64,
        }
    }
    #[cfg(not(feature = "scaled"))]
    {
        model::consts::PROD
    }
}

pub fn layers_of(bits: u8) -> Layers {
    let mut l = Layers::EMPTY;
    if bits & 1 != 0 {
        l |= Layers::ENCRYPT;
    }
    if bits & 2 != 0 {
        l |= Layers::COMPRESS;
    }
    l
}

// ------------------------------------------------------------------ sinks and sources

/// Sink shared between the writer (which owns a handle) and the harness
#[derive(Clone, Default)]
pub struct SharedSink(pub Rc<RefCell<SinkState>>);

#[derive(Default)]
pub struct SinkState {
    pub buf: Vec<u8>,
    pub writes: u64,
    pub flushes: u64,
    /// acceptance schedule
    pub sched: Sched,
    pub calls: u64,
}

#[derive(Clone, Debug, Default, serde::Serialize, serde::Deserialize, PartialEq, Eq, Hash)]
pub enum Sched {
    /// accept / return everything asked
    #[default]
    All,
    /// at most n bytes per call
    Max(usize),
    /// cycle through 1..=n
    Cycle(usize),
    /// pseudo-random in 1..=n
    Rand(usize, u64),
    /// every m-th call fails with Interrupted before anything is transferred (writer side)
    Interrupt(usize),
    /// source side: whole reads, except that no read crosses one of these absolute offsets
    StopAt(Vec<u64>),
}

impl Sched {
    pub fn take(&self, call: u64, asked: usize) -> Result<usize, io::Error> {
        if asked == 0 {
            return Ok(0);
        }
        let n = match self {
            Sched::All | Sched::StopAt(_) => asked,
            Sched::Max(n) => asked.min((*n).max(1)),
            Sched::Cycle(n) => asked.min(1 + (call as usize % (*n).max(1))),
            Sched::Rand(n, seed) => {
                let mut r = Rng::derive(*seed, &[call]);
                asked.min(1 + r.usize_below((*n).max(1)))
            }
            Sched::Interrupt(m) => {
                if call % (*m as u64).max(2) == 0 {
                    return Err(io::Error::new(io::ErrorKind::Interrupted, "interrupted"));
                }
                asked
            }
        };
        Ok(n)
    }
}

impl Write for SharedSink {
    fn write(&mut self, buf: &[u8]) -> io::Result<usize> {
        crate::alloc::tick();
        let mut s = self.0.borrow_mut();
        s.calls += 1;
        let n = s.sched.take(s.calls, buf.len())?;
        s.buf.extend_from_slice(&buf[..n]);
        s.writes += 1;
        Ok(n)
    }
    fn flush(&mut self) -> io::Result<()> {
        self.0.borrow_mut().flushes += 1;
        Ok(())
    }
}

/// Read(+Seek) source returning at most what the schedule allows, with counters
pub struct ThrottledSrc<'a> {
    pub data: &'a [u8],
    pub pos: u64,
    pub sched: Sched,
    pub calls: u64,
    pub reads_after_eof: u64,
    pub eof_seen: bool,
    pub seeks: u64,
    /// step bound: reads beyond this number of calls fail
    pub max_calls: u64,
}

impl<'a> ThrottledSrc<'a> {
    pub fn new(data: &'a [u8], sched: Sched) -> Self {
        ThrottledSrc { data, pos: 0, sched, calls: 0, reads_after_eof: 0, eof_seen: false, seeks: 0, max_calls: u64::MAX }
    }
}

impl Read for ThrottledSrc<'_> {
    fn read(&mut self, buf: &mut [u8]) -> io::Result<usize> {
        crate::alloc::tick();
        self.calls += 1;
        if self.calls > self.max_calls {
            return Err(io::Error::new(io::ErrorKind::Other, "harness step bound exceeded"));
        }
        if self.eof_seen {
            self.reads_after_eof += 1;
            if self.reads_after_eof > 2_000_000 {
                // logical-step bound: the caller keeps asking a source that has ended
                panic!("HARNESS-STEP-BOUND: source read {} times after its end", self.reads_after_eof);
            }
        }
        let avail = self.data.len().saturating_sub(self.pos as usize);
        if avail == 0 {
            if !buf.is_empty() {
                self.eof_seen = true;
            }
            return Ok(0);
        }
        let want = buf.len().min(avail);
        let mut n = match self.sched.take(self.calls, want) {
            Ok(n) => n,
            Err(_) => want,
        };
        if let Sched::StopAt(offs) = &self.sched {
            for &o in offs {
                if self.pos < o && self.pos + n as u64 > o {
                    n = (o - self.pos) as usize;
                }
            }
        }
        let p = self.pos as usize;
        buf[..n].copy_from_slice(&self.data[p..p + n]);
        self.pos += n as u64;
        Ok(n)
    }
}

impl Seek for ThrottledSrc<'_> {
    fn seek(&mut self, pos: SeekFrom) -> io::Result<u64> {
        crate::alloc::tick();
        self.seeks += 1;
        let new = match pos {
            SeekFrom::Start(p) => p as i128,
            SeekFrom::Current(d) => self.pos as i128 + d as i128,
            SeekFrom::End(d) => self.data.len() as i128 + d as i128,
        };
        if new < 0 {
            return Err(io::Error::new(io::ErrorKind::InvalidInput, "negative seek"));
        }
        self.pos = new as u64;
        self.eof_seen = false;
        Ok(self.pos)
    }
}

// ------------------------------------------------------------------ building

pub struct Built {
    pub raw: Vec<u8>,
    pub expected: BTreeMap<String, Vec<u8>>,
    pub sks: Vec<[u8; 32]>,
    /// (raw length when flush returned, bytes appended so far per file name)
    pub flush_marks: Vec<(usize, BTreeMap<String, usize>)>,
    pub key: Option<[u8; 32]>,
    pub nonce: Option<[u8; 8]>,
}

thread_local! {
    /// which of the equivalent ways of building the configuration is used (None: chosen from the program's seed)
    pub static CONFIG_PATH: std::cell::Cell<Option<u8>> = const { std::cell::Cell::new(None) };
}
pub const CONFIG_PATHS: u8 = 8;

/// The same configuration reached through different sequences of builder calls: what the
/// archive is (layers, level, recipients, fresh secrets) must not depend on the route.
pub fn writer_config(p: &Program, pks: &[PublicKey]) -> ArchiveWriterConfig {
    let path = CONFIG_PATH.with(std::cell::Cell::get).unwrap_or((p.seed % u64::from(CONFIG_PATHS)) as u8);
    writer_config_path(p, pks, path)
}

pub fn writer_config_path(p: &Program, pks: &[PublicKey], path: u8) -> ArchiveWriterConfig {
    let want = layers_of(p.layers);
    let enc = p.layers & 1 != 0;
    let comp = p.layers & 2 != 0;
    let mut c = match path % CONFIG_PATHS {
        1 => {
            // from the default configuration
            let mut c = ArchiveWriterConfig::default();
            c.set_layers(want);
            c
        }
        2 => {
            // layer by layer
            let mut c = ArchiveWriterConfig::new();
            c.set_layers(Layers::EMPTY);
            if comp {
                c.enable_layer(Layers::COMPRESS);
            }
            if enc {
                c.enable_layer(Layers::ENCRYPT);
            }
            c
        }
        3 => {
            // everything, then what is not wanted is taken away
            let mut c = ArchiveWriterConfig::new();
            c.set_layers(Layers::COMPRESS | Layers::ENCRYPT);
            if !comp {
                c.disable_layer(Layers::COMPRESS);
            }
            if !enc {
                c.disable_layer(Layers::ENCRYPT);
            }
            c
        }
        4 => {
            // a layer switched off and on again
            let mut c = ArchiveWriterConfig::new();
            c.set_layers(want);
            c.disable_layer(Layers::ENCRYPT | Layers::COMPRESS);
            c.set_layers(want);
            c
        }
        5 => {
            // each wanted layer toggled once
            let mut c = ArchiveWriterConfig::new();
            c.set_layers(want);
            if enc {
                c.disable_layer(Layers::ENCRYPT);
                c.enable_layer(Layers::ENCRYPT);
            }
            if comp {
                c.disable_layer(Layers::COMPRESS);
                c.enable_layer(Layers::COMPRESS);
            }
            c
        }
        7 => {
            // recipients registered one call at a time
            let mut c = ArchiveWriterConfig::new();
            c.set_layers(want);
            if comp {
                c.with_compression_level(p.level).expect("level");
            }
            if enc {
                for pk in pks {
                    c.add_public_keys(std::slice::from_ref(pk));
                }
            }
            return c;
        }
        6 => {
            // recipients and level given before the layers are chosen
            let mut c = ArchiveWriterConfig::new();
            if enc {
                c.add_public_keys(pks);
            }
            if comp {
                c.with_compression_level(p.level).expect("level");
            }
            c.set_layers(want);
            return c;
        }
        _ => {
            let mut c = ArchiveWriterConfig::new();
            c.set_layers(want);
            c
        }
    };
    if comp {
        c.with_compression_level(p.level).expect("level");
    }
    if enc {
        c.add_public_keys(pks);
    }
    c
}

pub fn recipient_keys(p: &Program) -> (Vec<[u8; 32]>, Vec<PublicKey>) {
    let sks: Vec<[u8; 32]> = (0..p.nrecip.max(1)).map(|i| secret_key(p.seed, i)).collect();
    let pks = sks.iter().map(|s| PublicKey::from(&StaticSecret::from(*s))).collect();
    (sks, pks)
}

/// Run a (valid) program through the real writer. Every call must succeed.
pub fn build(p: &Program, k: &K, sched: Sched) -> Result<Built, String> {
    build_with_sources(p, k, sched, Sched::All)
}

/// Same, the data of every piece being handed over by a source following `src_sched`
/// (a `Read` may return fewer bytes than asked)
/// `p` written for the recipients of `keys_of` (another program: same recipients, other data)
pub fn build_for_keys(p: &Program, k: &K, keys_of: &Program) -> Result<Built, String> {
    build_inner(p, k, Sched::All, Sched::All, recipient_keys(keys_of))
}

pub fn build_with_sources(p: &Program, k: &K, sched: Sched, src_sched: Sched) -> Result<Built, String> {
    build_inner(p, k, sched, src_sched, recipient_keys(p))
}

fn build_inner(p: &Program, k: &K, sched: Sched, src_sched: Sched, keys: (Vec<[u8; 32]>, Vec<PublicKey>)) -> Result<Built, String> {
    let (sks, pks) = keys;
    let cfg = writer_config(p, &pks);
    let key = if p.layers & 1 != 0 { Some(*cfg.encryption_key()) } else { None };
    let nonce = if p.layers & 1 != 0 { Some(*cfg.encryption_nonce()) } else { None };
    let sink = SharedSink::default();
    sink.0.borrow_mut().sched = sched;
    let mut w = ArchiveWriter::from_config(sink.clone(), cfg).map_err(|e| format!("from_config: {e}"))?;
    let totals = p.totals(k);
    let data: Vec<Vec<u8>> =
        p.files.iter().enumerate().map(|(f, s)| file_bytes(p.seed, f, s.data, totals[f])).collect();
    let mut off = vec![0usize; p.files.len()];
    let mut ids: Vec<Option<u64>> = vec![None; p.files.len()];
    let mut flush_marks = Vec::new();
    // one program in three hands over sources that hold more than the announced size (the rest of
    // the file's data): only the announced bytes belong to the piece
    let extra = if p.seed % 3 == 1 { usize::MAX / 4 } else { 0 };
    // one program in four issues its flushes through a helpers::StreamWriter of an open file
    let flush_through_stream_writer = p.seed % 4 == 2;
    for (i, op) in p.ops.iter().enumerate() {
        match op {
            Op::Start(f) => {
                let id = w.start_file(&p.files[*f].name.render()).map_err(|e| format!("op {i} start_file: {e}"))?;
                ids[*f] = Some(id);
            }
            Op::Append(f, s) => {
                let n = s.eval(k) as usize;
                let id = ids[*f].ok_or_else(|| format!("op {i}: append before start"))?;
                w.append_file_content(id, n as u64, ThrottledSrc::new(&data[*f][off[*f]..(off[*f] + n + extra).min(data[*f].len())], src_sched.clone()))
                    .map_err(|e| format!("op {i} append_file_content: {e}"))?;
                off[*f] += n;
            }
            Op::End(f) => {
                let id = ids[*f].ok_or_else(|| format!("op {i}: end before start"))?;
                w.end_file(id).map_err(|e| format!("op {i} end_file: {e}"))?;
            }
            Op::Add(f, s) => {
                let n = s.eval(k) as usize;
                w.add_file(&p.files[*f].name.render(), n as u64, ThrottledSrc::new(&data[*f][off[*f]..(off[*f] + n + extra).min(data[*f].len())], src_sched.clone()))
                    .map_err(|e| format!("op {i} add_file: {e}"))?;
                off[*f] += n;
                ids[*f] = Some(u64::MAX);
            }
            Op::Flush => {
                let open_id = (0..p.files.len()).find_map(|f| match ids[f] {
                    Some(id) if id != u64::MAX && !p.ops[..i].iter().any(|e| matches!(e, Op::End(g) if *g == f)) => Some(id),
                    _ => None,
                });
                match open_id {
                    Some(id) if flush_through_stream_writer => {
                        use std::io::Write as _;
                        mla::helpers::StreamWriter::new(&mut w, id).flush().map_err(|e| format!("op {i} flush (StreamWriter): {e}"))?;
                    }
                    _ => w.flush().map_err(|e| format!("op {i} flush: {e}"))?,
                }
                let mut m = BTreeMap::new();
                for (f, id) in ids.iter().enumerate() {
                    if id.is_some() {
                        m.insert(p.files[f].name.render(), off[f]);
                    }
                }
                flush_marks.push((sink.0.borrow().buf.len(), m));
            }
            Op::Finalize => {
                w.finalize().map_err(|e| format!("op {i} finalize: {e}"))?;
            }
        }
    }
    drop(w);
    let raw = std::mem::take(&mut sink.0.borrow_mut().buf);
    Ok(Built { raw, expected: p.expected(k), sks, flush_marks, key, nonce })
}

// ------------------------------------------------------------------ reading

#[derive(Clone, Debug, PartialEq, Eq)]
pub struct FileRead {
    pub data: Vec<u8>,
    pub size: u64,
    pub hash: Option<[u8; 32]>,
}

pub fn reader_config(sks: &[[u8; 32]]) -> ArchiveReaderConfig {
    let mut c = ArchiveReaderConfig::new();
    let keys: Vec<StaticSecret> = sks.iter().map(|s| StaticSecret::from(*s)).collect();
    c.add_private_keys(&keys);
    c
}

pub fn open<'a, R: Read + Seek + 'a>(src: R, sks: &[[u8; 32]]) -> Result<ArchiveReader<'a, R>, String> {
    ArchiveReader::from_config(src, reader_config(sks)).map_err(|e| format!("open: {e}"))
}

/// Read every file with a varying buffer-size sequence
pub fn read_all_from<R: Read + Seek>(src: R, sks: &[[u8; 32]], rng: &mut Rng) -> Result<BTreeMap<String, FileRead>, String> {
    let mut r = open(src, sks)?;
    let mut names: Vec<String> = r.list_files().map_err(|e| format!("list: {e}"))?.cloned().collect();
    names.sort();
    let mut out = BTreeMap::new();
    for n in names {
        let hash = r.get_hash(&n).map_err(|e| format!("get_hash {n:?}: {e}"))?;
        let mut f = r
            .get_file(n.clone())
            .map_err(|e| format!("get_file {n:?}: {e}"))?
            .ok_or_else(|| format!("get_file {n:?}: listed but None"))?;
        let size = f.size;
        let data = read_varying(&mut f.data, rng, size as usize + 16).map_err(|e| format!("read {n:?}: {e}"))?;
        out.insert(n, FileRead { data, size, hash });
    }
    Ok(out)
}

pub fn read_all(raw: &[u8], sks: &[[u8; 32]], rng: &mut Rng) -> Result<BTreeMap<String, FileRead>, String> {
    read_all_from(Cursor::new(raw), sks, rng)
}

/// read to EOF with buffers of varying sizes; `hint` bounds the large sizes
pub fn read_varying<R: Read>(r: &mut R, rng: &mut Rng, hint: usize) -> io::Result<Vec<u8>> {
    let mut out = Vec::new();
    let sizes = [1usize, 2, 3, 7, 64, 4096, 65536, hint.max(1)];
    let mut buf = vec![0u8; hint.max(65536)];
    loop {
        let b = (*rng.pick(&sizes)).min(buf.len());
        let n = r.read(&mut buf[..b])?;
        if n == 0 {
            break;
        }
        out.extend_from_slice(&buf[..n]);
        if out.len() > hint.saturating_mul(4) + (1 << 20) {
            return Err(io::Error::new(io::ErrorKind::Other, "reader delivers far more than the announced size"));
        }
    }
    Ok(out)
}

pub fn compare_maps(expected: &BTreeMap<String, Vec<u8>>, got: &BTreeMap<String, FileRead>) -> Result<(), String> {
    let en: Vec<&String> = expected.keys().collect();
    let gn: Vec<&String> = got.keys().collect();
    if en != gn {
        return Err(format!("listing differs: expected {:?}, got {:?}", short_names(&en), short_names(&gn)));
    }
    for (n, e) in expected {
        let g = &got[n];
        if g.data != *e {
            return Err(format!("content of {:?} differs: {}", short(n), diff_desc(e, &g.data)));
        }
        if g.size != e.len() as u64 {
            return Err(format!("size of {:?}: reported {}, true {}", short(n), g.size, e.len()));
        }
        if g.hash != Some(model::fmt::sha256(e)) {
            return Err(format!("hash of {:?} is not SHA-256 of its content", short(n)));
        }
    }
    Ok(())
}

pub fn short(s: &str) -> String {
    if s.len() > 40 {
        format!("{}…({} bytes)", &s.chars().take(20).collect::<String>(), s.len())
    } else {
        s.to_string()
    }
}
fn short_names(v: &[&String]) -> Vec<String> {
    v.iter().take(12).map(|s| short(s)).collect()
}

pub fn diff_desc(e: &[u8], g: &[u8]) -> String {
    let common = e.iter().zip(g).take_while(|(a, b)| a == b).count();
    format!("expected {} bytes, got {} bytes, first difference at {}", e.len(), g.len(), common)
}

// ------------------------------------------------------------------ repair

#[derive(Clone, Copy, Debug, PartialEq, Eq, Hash, serde::Serialize, serde::Deserialize)]
pub enum Mode {
    Auth,
    Unauth,
}

#[derive(Clone, Debug, PartialEq, Eq)]
pub enum Status {
    EndOfData,
    Unfinished(Vec<String>, String),
    Other(String),
}

impl Status {
    /// what a user relies on: end reached / which files are unfinished / stopped otherwise
    /// (the kind of the stopping error is not part of it)
    pub fn coarse(&self) -> String {
        match self {
            Status::EndOfData => "EndOfOriginalArchiveData".into(),
            Status::Unfinished(names, _) => format!("Unfinished{names:?}"),
            Status::Other(_) => "StoppedBeforeEnd".into(),
        }
    }
    pub fn class(&self) -> String {
        match self {
            Status::EndOfData => "EndOfOriginalArchiveData".into(),
            Status::Unfinished(_, inner) => format!("Unfinished({inner})"),
            Status::Other(s) => s.clone(),
        }
    }
}

fn status_name(e: &FailSafeReadError) -> String {
    let s = format!("{e:?}");
    s.split(|c: char| !c.is_alphanumeric()).next().unwrap_or("?").to_string()
}

pub struct Repaired {
    pub status: Status,
    pub out_raw: Vec<u8>,
}

/// destination of a repair: what is written is bounded by a function of the input size
pub struct CapVec {
    pub buf: Vec<u8>,
    pub cap: usize,
}
impl Write for CapVec {
    fn write(&mut self, b: &[u8]) -> io::Result<usize> {
        crate::alloc::tick();
        if self.buf.len() + b.len() > self.cap {
            return Err(io::Error::new(io::ErrorKind::Other, "HARNESS-OUTPUT-CAP: repair writes far more than it was given"));
        }
        self.buf.extend_from_slice(b);
        Ok(b.len())
    }
    fn flush(&mut self) -> io::Result<()> {
        Ok(())
    }
}

/// Repair `src` into a fresh archive without layers. Err = repair refused to start or failed.
thread_local! {
    /// repair into an output writer that already holds one entry
    pub static REPAIR_INTO_USED_WRITER: std::cell::Cell<bool> = const { std::cell::Cell::new(false) };
}
pub const RECOVERY_NOTE: &str = "\u{1}verif recovery note 7f3a\u{1}";

pub fn repair<R: Read>(src: R, sks: &[[u8; 32]], mode: Mode) -> Result<Repaired, String> {
    repair_capped(src, sks, mode, usize::MAX / 2)
}

/// `cap`: upper bound on the size of the repaired archive (a repair that appends for ever is
/// turned into an error mentioning HARNESS-OUTPUT-CAP instead of exhausting memory)
pub fn repair_capped<R: Read>(src: R, sks: &[[u8; 32]], mode: Mode, cap: usize) -> Result<Repaired, String> {
    // the two orders of building the reader configuration (keys first / mode first) are equivalent
    let cfg = if sks.first().is_some_and(|k| k[0] & 1 == 1) {
        let mut cfg = ArchiveReaderConfig::new();
        match mode {
            Mode::Auth => cfg.failsafe_return_only_authenticated_data(),
            Mode::Unauth => cfg.failsafe_return_data_even_unauthenticated(),
        };
        let keys: Vec<StaticSecret> = sks.iter().map(|s| StaticSecret::from(*s)).collect();
        cfg.add_private_keys(&keys);
        cfg
    } else {
        let mut cfg = reader_config(sks);
        match mode {
            Mode::Auth => cfg.failsafe_return_only_authenticated_data(),
            Mode::Unauth => cfg.failsafe_return_data_even_unauthenticated(),
        };
        cfg
    };
    let mut fs = ArchiveFailSafeReader::from_config(src, cfg).map_err(|e| format!("failsafe open: {e}"))?;
    let mut wc = ArchiveWriterConfig::new();
    wc.set_layers(Layers::EMPTY);
    let mut out = ArchiveWriter::from_config(CapVec { buf: Vec::new(), cap }, wc).map_err(|e| format!("out writer: {e}"))?;
    if REPAIR_INTO_USED_WRITER.with(std::cell::Cell::get) {
        // the caller's output archive already holds an entry (a note about the recovery):
        // the ids the output writer hands out then differ from the ids of the source
        out.add_file(RECOVERY_NOTE, 22, &b"recovered by the check"[..]).map_err(|e| format!("out writer: {e}"))?;
    }
    let st = fs.convert_to_archive(&mut out).map_err(|e| format!("convert: {e}"))?;
    let status = match &st {
        FailSafeReadError::EndOfOriginalArchiveData => Status::EndOfData,
        FailSafeReadError::UnfinishedFiles { filenames, stopping_error } => {
            let mut f = filenames.clone();
            f.sort();
            Status::Unfinished(f, status_name(stopping_error))
        }
        other => Status::Other(status_name(other)),
    };
    Ok(Repaired { status, out_raw: out.into_raw().buf })
}

/// Repair then read the produced archive back with the normal reader
pub fn repair_and_read<R: Read>(src: R, sks: &[[u8; 32]], mode: Mode, rng: &mut Rng) -> Result<(Status, BTreeMap<String, FileRead>), String> {
    repair_and_read_capped(src, sks, mode, rng, usize::MAX / 2)
}

pub fn repair_and_read_capped<R: Read>(src: R, sks: &[[u8; 32]], mode: Mode, rng: &mut Rng, cap: usize) -> Result<(Status, BTreeMap<String, FileRead>), String> {
    let r = repair_capped(src, sks, mode, cap)?;
    let mut files = read_all(&r.out_raw, &[], rng).map_err(|e| format!("UNREADABLE-OUTPUT: {e}"))?;
    if REPAIR_INTO_USED_WRITER.with(std::cell::Cell::get) {
        match files.remove(RECOVERY_NOTE) {
            Some(f) if f.data == b"recovered by the check" => {}
            _ => return Err("UNREADABLE-OUTPUT: the entry the output archive held before the repair is missing or altered".into()),
        }
    }
    Ok((r.status, files))
}
