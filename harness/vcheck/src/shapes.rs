//! Production-scale archive shapes whose interesting alignment is data dependent (it lies in the
//! compressed stream), reached by steering: the real writer's output is measured and one size of
//! the program adjusted until the first compressed block ends at a chosen distance from an edge
//! of the encryption chunk grid or of the repair reader's input window. Shared by the checks
//! that read, cut, corrupt or re-read such archives.
use crate::drv::{self, Sched};
use model::consts::{Sz, K};
use model::prog::*;
use std::collections::HashMap;

#[derive(Clone, Copy, Debug, PartialEq, Eq, Hash)]
pub enum Grid {
    /// 128 KiB encryption chunks (meaningful with both layers)
    Chunk,
    /// 4 KiB input window of the fail-safe decompressor
    Window,
}

thread_local! {
    static CACHE: std::cell::RefCell<HashMap<(u64, u8, u32, Grid, i64, bool, bool), Option<Program>>> = std::cell::RefCell::new(HashMap::new());
}

/// f0: r incompressible bytes; f1: t bytes of text (varies the last bits of the block's stream);
/// f2: constant data running over the end of the first compression block (optionally followed by
/// a flush). `unneeded`: the brotli decoder yields the whole block before it asks for the block's
/// last compressed byte (which then only holds the end-of-stream bits) - the shape in which a
/// reader leaves that byte unread in the layer below when the block's data has been delivered.
pub fn block_end(k: &K, seed: u64, layers: u8, level: u32, grid: Grid, residue: i64, unneeded: bool, flush: bool) -> Option<Program> {
    let key = (seed ^ k.chunk, layers, level, grid, residue, unneeded, flush);
    if let Some(v) = CACHE.with(|c| c.borrow().get(&key).cloned()) {
        return v;
    }
    let v = block_end_uncached(k, seed, layers, level, grid, residue, unneeded, flush);
    CACHE.with(|c| c.borrow_mut().insert(key, v.clone()));
    v
}

fn block_end_uncached(k: &K, seed: u64, layers: u8, level: u32, grid: Grid, residue: i64, unneeded: bool, flush: bool) -> Option<Program> {
    let mk = |layers: u8, r: i64, t: i64| {
        let mut ops = vec![Op::Add(0, Sz::lit(r)), Op::Add(1, Sz::lit(t)), Op::Start(2), Op::Append(2, Sz::new(1, 0, 0)), Op::Append(2, Sz::new(0, 2, 777))];
        if flush {
            ops.push(Op::Flush);
        }
        ops.extend([Op::End(2), Op::Finalize]);
        Program {
            layers,
            level,
            nrecip: 2,
            files: vec![
                FileSpec { name: NameKind::Plain(0), data: DataKind::Random },
                FileSpec { name: NameKind::Plain(1), data: DataKind::Text },
                FileSpec { name: NameKind::Plain(2), data: DataKind::Constant(0x3c) },
            ],
            ops,
            seed: seed ^ 0xC0B1,
        }
    };
    // compression-only twin (the compressed stream is the same under encryption):
    // (size of the first compressed block, last byte not needed)
    let probe = |r: i64, t: i64| -> Option<(i64, bool)> {
        let twin = drv::build(&mk(2, r, t), k, Sched::All).ok()?;
        let d = model::fmt::decode_archive(k, &twin.raw, &[]).ok()?;
        let s0 = i64::from(*d.comp.as_ref()?.sizes.first()?);
        let block = twin.raw.get(d.header.len..d.header.len + s0 as usize - 1)?;
        let un = unneeded && model::fmt::brotli_decompress_prefix(block).len() as u64 == k.block;
        Some((s0, un))
    };
    let modulus = match grid {
        Grid::Chunk => k.chunk,
        Grid::Window => k.fsbuf,
    } as i64;
    let want = residue.rem_euclid(modulus);
    for t in 1..=64_i64 {
        let t = t * 29;
        let mut r = 5 * k.chunk as i64 + 4321;
        for _ in 0..8 {
            let (s0, un) = probe(r, t)?;
            if unneeded && !un {
                break;
            }
            let have = s0.rem_euclid(modulus);
            if have == want {
                return Some(mk(layers, r, t));
            }
            let mut step = (want - have).rem_euclid(modulus);
            if step > modulus / 2 && r + step - modulus > k.chunk as i64 {
                step -= modulus;
            }
            r += step;
        }
        if !unneeded {
            break;
        }
    }
    None
}
