//! C08 — untrusted input never crashes, hangs or exhausts memory.
//! Hostile byte strings are produced at three levels (raw file, compression-layer
//! bytes, block stream + footer) and wrapped in *valid* outer layers by the
//! independent encoder, so that the inner parsers are reached even under
//! encryption. Every operation of the reader and repair runs under a panic trap,
//! a counting allocator and an instrumented source.
use crate::alloc;
use crate::c06::{self, IdStyle};
use crate::ctx::{guarded, msg_class, Ctx};
use crate::drv::{self, Mode, Sched, ThrottledSrc};
use model::consts::{Sz, K};
use model::fmt::{self, EncodeOpts};
use model::prng::Rng;
use model::prog::*;
use serde::{Deserialize, Serialize};
use serde_json::{json, Value};
use std::collections::HashMap;
use std::io::{self, Read, Write};

#[derive(Clone, Copy, Debug, Serialize, Deserialize, PartialEq, Eq, Hash)]
pub enum Pos {
    Start(u32),
    End(u32),
    Permille(u32),
}

impl Pos {
    fn at(&self, len: usize) -> usize {
        match self {
            Pos::Start(n) => (*n as usize).min(len),
            Pos::End(n) => len - (*n as usize).min(len),
            Pos::Permille(p) => (len as u64 * u64::from(*p) / 1000) as usize,
        }
    }
}

#[derive(Clone, Debug, Serialize, Deserialize, PartialEq, Eq, Hash)]
pub enum Mut {
    Trunc(Pos),
    Flip(Pos, u8),
    Set(Pos, u8),
    SetU32(Pos, u32),
    SetU64(Pos, u64),
    Splice { src: Pos, dst: Pos, len: u32 },
    Insert { at: Pos, len: u32, seed: u64 },
    Delete { at: Pos, len: u32 },
    Append { len: u32, seed: u64 },
}

impl Mut {
    fn kind(&self) -> &'static str {
        match self {
            Mut::Trunc(_) => "trunc",
            Mut::Flip(..) => "flip",
            Mut::Set(..) => "set",
            Mut::SetU32(..) => "set_u32",
            Mut::SetU64(..) => "set_u64",
            Mut::Splice { .. } => "splice",
            Mut::Insert { .. } => "insert",
            Mut::Delete { .. } => "delete",
            Mut::Append { .. } => "append",
        }
    }
    fn apply(&self, b: &mut Vec<u8>) {
        let len = b.len();
        match self {
            Mut::Trunc(p) => b.truncate(p.at(len)),
            Mut::Flip(p, bit) => {
                let o = p.at(len);
                if o < len {
                    b[o] ^= 1 << (bit % 8);
                }
            }
            Mut::Set(p, v) => {
                let o = p.at(len);
                if o < len {
                    b[o] = *v;
                }
            }
            Mut::SetU32(p, v) => {
                let o = p.at(len);
                if o + 4 <= len {
                    b[o..o + 4].copy_from_slice(&v.to_le_bytes());
                }
            }
            Mut::SetU64(p, v) => {
                let o = p.at(len);
                if o + 8 <= len {
                    b[o..o + 8].copy_from_slice(&v.to_le_bytes());
                }
            }
            Mut::Splice { src, dst, len: l } => {
                let s = src.at(len);
                let d = dst.at(len);
                let l = (*l as usize).min(len - s).min(len - d);
                let tmp = b[s..s + l].to_vec();
                b[d..d + l].copy_from_slice(&tmp);
            }
            Mut::Insert { at, len: l, seed } => {
                let o = at.at(len);
                let ins = Rng::new(*seed).bytes(*l as usize);
                b.splice(o..o, ins);
            }
            Mut::Delete { at, len: l } => {
                let o = at.at(len);
                let e = (o + *l as usize).min(len);
                b.drain(o..e);
            }
            Mut::Append { len: l, seed } => b.extend(Rng::new(*seed).bytes(*l as usize)),
        }
    }
}

#[derive(Clone, Copy, Debug, Serialize, Deserialize, PartialEq, Eq, Hash)]
pub enum Level {
    Raw,
    Comp,
    Stream,
}

#[derive(Clone, Debug, Serialize, Deserialize, PartialEq, Eq, Hash)]
pub enum Forge {
    /// archive footer: length field
    FooterLen(u32),
    /// archive footer: one file gets `n` offsets all pointing at a block of another file
    DeepOffsets(u32),
    /// archive footer: field of the first file set to a value
    FooterSize(u64),
    FooterEof(u64),
    FooterOffset0(u64),
    FooterNoOffsets,
    FooterNameLen(u64),
    FooterCount(u64),
    /// compression layer: sizes table
    SizesLen(u32),
    SizesCount(u64),
    SizesEntry(i32, u32),
    SizesLast(u32),
    SizesEmpty,
    /// n extra entries of value v in front of the genuine ones (sums of entries, not single fields, get large)
    SizesFill(u32, u32),
    /// block stream: first start block name length / first content block length
    StartNameLen(u64),
    ContentLen(u64),
    /// a content block for an id that was never started / after its end
    OrphanContent,
    /// compression layer: one brotli stream expanding to more than a block (n extra MiB of zeros), followed by more data
    OversizedBlock(u32),
    NoEndMarker,
}

#[derive(Clone, Debug, Serialize, Deserialize)]
pub enum Base {
    Prog(Program),
    RandomBytes(u32, u64),
    Empty,
    /// valid header for the layers, then random bytes
    HeaderThenRandom(u8, u32, u64),
}

#[derive(Clone, Debug, Serialize, Deserialize)]
pub struct Case {
    pub base: Base,
    pub forge: Option<Forge>,
    pub muts: Vec<(Level, Mut)>,
    pub ops_seed: u64,
}

// ------------------------------------------------------------------ building the hostile bytes

fn le_at(b: &mut [u8], o: usize, v: &[u8]) {
    if o + v.len() <= b.len() {
        b[o..o + v.len()].copy_from_slice(v);
    }
}

pub fn build_hostile(c: &Case, k: &K) -> (Vec<u8>, Vec<[u8; 32]>) {
    let mut rng = Rng::new(c.ops_seed ^ 0xB111D);
    let (p, layers) = match &c.base {
        Base::RandomBytes(n, s) => return (Rng::new(*s).bytes(*n as usize), vec![secret_key(1, 0)]),
        Base::Empty => return (Vec::new(), vec![secret_key(1, 0)]),
        Base::HeaderThenRandom(layers, n, s) => {
            let sk = secret_key(*s, 0);
            let mut raw = if layers & 1 != 0 {
                let eh = fmt::wrap_key(&rng.array32(), &[fmt::public_of(&sk)], &rng.array32(), &[7u8; 8]);
                fmt::enc_header(*layers, Some(&eh))
            } else {
                fmt::enc_header(*layers, None)
            };
            raw.extend(Rng::new(*s).bytes(*n as usize));
            for (lvl, m) in &c.muts {
                if *lvl == Level::Raw {
                    m.apply(&mut raw);
                }
            }
            return (raw, vec![sk]);
        }
        Base::Prog(p) => (p, p.layers),
    };
    let sks: Vec<[u8; 32]> = (0..p.nrecip.max(1)).map(|i| secret_key(p.seed, i)).collect();
    // ---- block stream + footer
    let mut blks = c06::model_blocks(p, k, c.ops_seed, IdStyle::Sequential, false);
    if c.forge == Some(Forge::OrphanContent) {
        blks.push(fmt::Blk::Content { id: 77_777, data: vec![1, 2, 3] });
        if let Some(fmt::Blk::Start { id, .. }) = blks.first().cloned() {
            blks.push(fmt::Blk::Content { id, data: vec![9; 5] });
        }
    }
    let (mut stream, offs) = fmt::enc_blocks(&blks);
    let mut footer = fmt::make_footer(&blks, &offs);
    // block-level forging
    match &c.forge {
        Some(Forge::StartNameLen(v)) => {
            if let Some(i) = blks.iter().position(|b| matches!(b, fmt::Blk::Start { .. })) {
                le_at(&mut stream, offs[i] as usize + 9, &v.to_le_bytes());
            }
        }
        Some(Forge::ContentLen(v)) => {
            if let Some(i) = blks.iter().position(|b| matches!(b, fmt::Blk::Content { .. })) {
                le_at(&mut stream, offs[i] as usize + 9, &v.to_le_bytes());
            }
        }
        _ => {}
    }
    // footer forging
    match &c.forge {
        Some(Forge::DeepOffsets(n)) if footer.len() >= 2 => {
            let other = footer[1].1.offsets.last().copied().unwrap_or(0);
            let first = footer[0].1.offsets[0];
            let mut o = vec![first];
            o.extend(std::iter::repeat(other).take(*n as usize));
            footer[0].1.offsets = o;
        }
        Some(Forge::FooterSize(v)) if !footer.is_empty() => footer[0].1.size = *v,
        Some(Forge::FooterEof(v)) if !footer.is_empty() => footer[0].1.eof_offset = *v,
        Some(Forge::FooterOffset0(v)) if !footer.is_empty() => footer[0].1.offsets[0] = *v,
        Some(Forge::FooterNoOffsets) if !footer.is_empty() => footer[0].1.offsets.clear(),
        _ => {}
    }
    if c.forge != Some(Forge::NoEndMarker) {
        stream.push(fmt::T_END_OF_DATA);
    }
    let fstart = stream.len();
    stream.extend(fmt::enc_footer(&footer));
    match &c.forge {
        Some(Forge::FooterLen(v)) => {
            let n = stream.len();
            le_at(&mut stream, n - 4, &v.to_le_bytes());
        }
        Some(Forge::FooterCount(v)) => le_at(&mut stream, fstart, &v.to_le_bytes()),
        Some(Forge::FooterNameLen(v)) => le_at(&mut stream, fstart + 8, &v.to_le_bytes()),
        _ => {}
    }
    for (lvl, m) in &c.muts {
        if *lvl == Level::Stream {
            m.apply(&mut stream);
        }
    }
    // ---- compression layer
    let mut inner = if layers & 2 != 0 {
        let mut out = Vec::new();
        let mut sizes = Vec::new();
        let mut last = 0u32;
        if let Some(Forge::OversizedBlock(extra)) = &c.forge {
            // the writer never produces this: a single stream that keeps going after BLOCK bytes of output
            // (a started file whose single content block is longer than BLOCK, so that a reader
            // does ask for more than BLOCK bytes of it; the genuine streams follow)
            let n = k.block as usize + ((*extra as usize) << 20) / (if k.is_prod() { 1 } else { 1024 });
            let mut big = vec![0u8];
            big.extend_from_slice(&0xF00D_u64.to_le_bytes());
            big.extend_from_slice(&3u64.to_le_bytes());
            big.extend_from_slice(b"big");
            big.push(1);
            big.extend_from_slice(&0xF00D_u64.to_le_bytes());
            big.extend_from_slice(&(n as u64).to_le_bytes());
            big.resize(big.len() + n, 0);
            let cdata = fmt::brotli_compress(&big, 1);
            sizes.push(cdata.len() as u32);
            out.extend(cdata);
        }
        for piece in stream.chunks(k.block as usize) {
            let cdata = fmt::brotli_compress(piece, 1);
            sizes.push(cdata.len() as u32);
            out.extend(cdata);
            last = piece.len() as u32;
        }
        match &c.forge {
            Some(Forge::SizesEntry(i, v)) if !sizes.is_empty() => {
                let n = sizes.len() as i32;
                let ix = if *i < 0 { n + *i } else { *i };
                if ix >= 0 && ix < n {
                    sizes[ix as usize] = *v;
                }
            }
            Some(Forge::SizesLast(v)) => last = *v,
            Some(Forge::SizesEmpty) => sizes.clear(),
            Some(Forge::SizesFill(n, v)) => {
                let mut t = vec![*v; *n as usize];
                t.extend_from_slice(&sizes);
                sizes = t;
            }
            _ => {}
        }
        let tstart = out.len();
        out.extend(fmt::enc_sizes_footer(&sizes, last));
        match &c.forge {
            Some(Forge::SizesLen(v)) => {
                let n = out.len();
                le_at(&mut out, n - 4, &v.to_le_bytes());
            }
            Some(Forge::SizesCount(v)) => le_at(&mut out, tstart, &v.to_le_bytes()),
            _ => {}
        }
        out
    } else {
        stream
    };
    for (lvl, m) in &c.muts {
        if *lvl == Level::Comp && layers & 2 != 0 {
            m.apply(&mut inner);
        }
    }
    // ---- encryption layer + header
    let o = EncodeOpts {
        layers,
        eph_sk: rng.array32(),
        recipients: sks.iter().map(fmt::public_of).collect(),
        key: rng.array32(),
        nonce: rng.bytes(8).try_into().unwrap(),
        qualities: vec![1],
        end_marker: false,
    };
    let mut raw = if layers & 1 != 0 {
        let eh = fmt::wrap_key(&o.eph_sk, &o.recipients, &o.key, &o.nonce);
        let mut raw = fmt::enc_header(layers, Some(&eh));
        raw.extend(fmt::enc_encrypt(k, &o.key, &o.nonce, &inner));
        raw
    } else {
        let mut raw = fmt::enc_header(layers, None);
        raw.extend(inner);
        raw
    };
    for (lvl, m) in &c.muts {
        if *lvl == Level::Raw {
            m.apply(&mut raw);
        }
    }
    (raw, sks)
}

// ------------------------------------------------------------------ case generation

fn random_pos(rng: &mut Rng) -> Pos {
    match rng.below(5) {
        0 => Pos::Start(rng.below(200) as u32),
        1 => Pos::End(1 + rng.below(120) as u32),
        2 => Pos::End(*rng.pick(&[1u32, 2, 3, 4, 5, 8, 12, 16, 17, 20, 24, 28, 32])),
        _ => Pos::Permille(rng.below(1001) as u32),
    }
}

fn random_mut(rng: &mut Rng) -> Mut {
    let u32s = [0u32, 1, 2, 0x7fff_ffff, 0xffff_ffff, 0xffff_ff00, 65537, 16, 17, 4096, 0x0100_0000];
    let u64s = [0u64, 1, 2, 65536, 65537, 0x7fff_ffff_ffff_ffff, u64::MAX, 1 << 32, (1 << 32) + 1, 0xffff_ffff, 512 * 1024 * 1024, 4 << 20];
    match rng.below(12) {
        0 | 1 => Mut::Trunc(random_pos(rng)),
        2 | 3 | 4 => Mut::Flip(random_pos(rng), rng.below(8) as u8),
        5 => Mut::Set(random_pos(rng), *rng.pick(&[0u8, 1, 0x7f, 0x80, 0xfe, 0xff])),
        6 => Mut::SetU32(random_pos(rng), *rng.pick(&u32s)),
        7 => Mut::SetU64(random_pos(rng), *rng.pick(&u64s)),
        8 => Mut::Splice { src: random_pos(rng), dst: random_pos(rng), len: 1 + rng.below(64) as u32 },
        9 => Mut::Insert { at: random_pos(rng), len: 1 + rng.below(40) as u32, seed: rng.next() },
        10 => Mut::Delete { at: random_pos(rng), len: 1 + rng.below(40) as u32 },
        _ => Mut::Append { len: 1 + rng.below(64) as u32, seed: rng.next() },
    }
}

fn base_programs(rng: &mut Rng, k: &K, big: bool) -> Vec<Program> {
    let mut v = Vec::new();
    let sizes = [Sz::lit(0), Sz::lit(1), Sz::lit(5), Sz::lit(40), Sz::lit(300)];
    for layers in LAYER_COMBOS {
        v.push(Program { layers, level: 1, nrecip: 1, files: vec![], ops: vec![Op::Finalize], seed: rng.next() });
        v.push(single_file(layers, 1, Sz::lit(5), DataKind::Text, rng.next()));
        for _ in 0..3 {
            let nf = 2 + rng.usize_below(3);
            v.push(random_program(rng, layers, 1, nf, 3, &sizes, false));
        }
        if big {
            // more than one encryption chunk / interleaved runs
            v.push(single_file(layers, 1, Sz::new(0, 1, 40), DataKind::Random, rng.next()));
            let s2 = [Sz::lit(100), Sz::new(0, 1, -17), Sz::lit(7)];
            v.push(random_program(rng, layers, 1, 3, 4, &s2, false));
        }
    }
    let _ = k;
    v
}

pub fn cases(ctx: &Ctx) -> Vec<Case> {
    let k = ctx.k;
    let mut rng = Rng::derive(ctx.seed, &[0xC08]);
    let mut v = Vec::new();
    let small = base_programs(&mut rng, &k, false);
    let big = base_programs(&mut rng, &k, true);
    // (1) forged structures, every base x every forge
    let u64s = [0u64, 1, 65536, 65537, u64::MAX, 1 << 32, 0x7fff_ffff_ffff_ffff, 500 << 20];
    let u32s = [0u32, 1, 3, 8, 11, 12, 16, 0x7fff_ffff, 0xffff_ffff, 0xffff_ff00, 1 << 20];
    let mut forges: Vec<Forge> = vec![Forge::FooterNoOffsets, Forge::SizesEmpty, Forge::OrphanContent, Forge::NoEndMarker];
    for v64 in u64s {
        forges.extend([Forge::FooterSize(v64), Forge::FooterEof(v64), Forge::FooterOffset0(v64), Forge::FooterNameLen(v64), Forge::FooterCount(v64), Forge::SizesCount(v64), Forge::StartNameLen(v64), Forge::ContentLen(v64)]);
    }
    for v32 in u32s {
        forges.extend([Forge::FooterLen(v32), Forge::SizesLen(v32), Forge::SizesEntry(0, v32), Forge::SizesEntry(-1, v32), Forge::SizesLast(v32)]);
    }
    for n in [10u32, 1000, 20_000, 100_000, 400_000] {
        forges.push(Forge::DeepOffsets(n));
    }
    forges.extend([Forge::OversizedBlock(1), Forge::OversizedBlock(2)]);
    forges.extend([Forge::SizesFill(2, 0x8000_0000), Forge::SizesFill(3, 0x5555_5556), Forge::SizesFill(2, 0xffff_ffff), Forge::SizesFill(1, 0xffff_ffff), Forge::SizesFill(70_000, 0xffff), Forge::SizesFill(5, 0)]);
    for f in &forges {
        for p in &small {
            if matches!(f, Forge::DeepOffsets(_)) && p.files.len() < 2 {
                continue;
            }
            // every skipped run costs a seek, i.e. a fresh decompressor, with compression on:
            // slow (minutes) but proportional to the input - keep these within the watchdog
            if matches!(f, Forge::DeepOffsets(n) if *n > 20_000 && p.layers != 0) {
                continue;
            }
            if matches!(f, Forge::SizesLen(_) | Forge::SizesCount(_) | Forge::SizesEntry(..) | Forge::SizesLast(_) | Forge::SizesEmpty | Forge::SizesFill(..) | Forge::OversizedBlock(_)) && p.layers & 2 == 0 {
                continue;
            }
            v.push(Case { base: Base::Prog(p.clone()), forge: Some(f.clone()), muts: vec![], ops_seed: rng.next() });
        }
    }
    // (2) random structured mutations, k <= 3, at the three levels
    let n = if ctx.quick() { 40_000 } else { 2_500_000 };
    for i in 0..n {
        let p = if i % 12 == 0 { rng.pick(&big).clone() } else { rng.pick(&small).clone() };
        let km = 1 + rng.usize_below(3);
        let mut muts = Vec::new();
        for _ in 0..km {
            let lvl = match rng.below(3) {
                0 => Level::Raw,
                1 if p.layers & 2 != 0 => Level::Comp,
                1 => Level::Raw,
                _ => Level::Stream,
            };
            muts.push((lvl, random_mut(&mut rng)));
        }
        let mut forge = if i % 9 == 0 { Some(rng.pick(&forges).clone()) } else { None };
        // (same exclusion as above: hundreds of thousands of runs under compression are only slow)
        if matches!(forge, Some(Forge::DeepOffsets(n)) if n > 20_000) && p.layers != 0 {
            forge = None;
        }
        v.push(Case { base: Base::Prog(p), forge, muts, ops_seed: rng.next() });
    }
    // (2b) two compression blocks: the footers are read from the last block only, so a corruption in the
    // first block lets the archive open and fails later, in the middle of a read (after-error histories)
    let nbig = if ctx.quick() { 64 } else { 1500 };
    for i in 0..nbig {
        let layers = if i % 2 == 0 { 3 } else { 2 };
        let p = single_file(layers, 1, Sz::new(1, 1, 4000), DataKind::Random, ctx.seed ^ 0xB16);
        let lvl = if i % 5 == 4 { Level::Comp } else { Level::Raw };
        let m = match i % 3 {
            0 => Mut::Flip(Pos::Permille(50 + rng.below(800) as u32), rng.below(8) as u8),
            1 => Mut::Set(Pos::Permille(50 + rng.below(800) as u32), rng.below(256) as u8),
            _ => Mut::Splice { src: Pos::Permille(rng.below(900) as u32), dst: Pos::Permille(50 + rng.below(800) as u32), len: 1 + rng.below(40) as u32 },
        };
        v.push(Case { base: Base::Prog(p), forge: None, muts: vec![(lvl, m)], ops_seed: rng.next() });
    }
    // (3) raw random bytes, empty input, valid header + garbage
    v.push(Case { base: Base::Empty, forge: None, muts: vec![], ops_seed: 1 });
    let nr = if ctx.quick() { 1500 } else { 60_000 };
    for i in 0..nr {
        let len = *rng.pick(&[1u32, 3, 7, 8, 9, 50, 200, 1000, 5000]);
        if i % 2 == 0 {
            v.push(Case { base: Base::RandomBytes(len, rng.next()), forge: None, muts: vec![], ops_seed: rng.next() });
        } else {
            v.push(Case { base: Base::HeaderThenRandom(LAYER_COMBOS[i % 4], len, rng.next()), forge: None, muts: vec![], ops_seed: rng.next() });
        }
    }
    v
}

// ------------------------------------------------------------------ monitored execution

struct LimitSink {
    n: u64,
    limit: u64,
}
impl Write for LimitSink {
    fn write(&mut self, b: &[u8]) -> io::Result<usize> {
        self.n += b.len() as u64;
        if self.n > self.limit {
            return Err(io::Error::new(io::ErrorKind::Other, "harness sink limit"));
        }
        Ok(b.len())
    }
    fn flush(&mut self) -> io::Result<()> {
        Ok(())
    }
}

pub struct Finding {
    pub sig: String,
    pub detail: Value,
}

const OUT_LIMIT: u64 = 1 << 30;

/// Run every operation on the hostile bytes. Returns findings; counts outcomes in ctx.
pub fn exercise(ctx: &mut Ctx, raw: &[u8], sks: &[[u8; 32]], ops_seed: u64, tag: &str) -> Vec<Finding> {
    let mut findings = Vec::new();
    let ceiling: u64 = 16 * raw.len() as u64 + (640 << 20);
    let step_bound: u64 = 64 * raw.len() as u64 + 1_000_000;
    let mut rng = Rng::new(ops_seed);
    let cur_op = std::cell::RefCell::new(String::from("open"));
    // ---- normal reader with an after-error history
    let m0 = alloc::mark();
    let mut src_stats = (0u64, 0u64);
    let r = guarded(|| {
        let mut src = ThrottledSrc::new(raw, Sched::All);
        src.max_calls = step_bound;
        let mut outcomes: Vec<(String, bool)> = Vec::new();
        let mut ar = match drv::open(&mut src, sks) {
            Ok(a) => a,
            Err(_) => {
                outcomes.push(("open".into(), false));
                return (outcomes, 0u64, 0u64);
            }
        };
        outcomes.push(("open".into(), true));
        let names: Vec<String> = ar.list_files().map(|it| it.cloned().collect()).unwrap_or_default();
        let nops = 3 + rng.usize_below(8);
        let mut had_err = false;
        for _ in 0..nops {
            let which = rng.below(5);
            let name = if names.is_empty() { "missing".to_string() } else { rng.pick(&names).clone() };
            let (op, ok) = match which {
                0 => {
                    *cur_op.borrow_mut() = "list".into();
                    ("list", ar.list_files().is_ok())
                }
                1 => {
                    *cur_op.borrow_mut() = "get_hash".into();
                    ("get_hash", ar.get_hash(&name).is_ok())
                }
                2 | 3 => {
                    *cur_op.borrow_mut() = "get_file+read".into();
                    match ar.get_file(name) {
                        Ok(Some(mut f)) => {
                            let mut buf = vec![0u8; 1 << 16];
                            let mut total = 0u64;
                            let mut ok = true;
                            loop {
                                match f.data.read(&mut buf) {
                                    Ok(0) => break,
                                    Ok(n) => {
                                        total += n as u64;
                                        if total > OUT_LIMIT {
                                            break;
                                        }
                                    }
                                    Err(_) => {
                                        ok = false;
                                        break;
                                    }
                                }
                            }
                            ("get_file+read", ok)
                        }
                        Ok(None) => ("get_file+read", true),
                        Err(_) => ("get_file+read", false),
                    }
                }
                _ => {
                    *cur_op.borrow_mut() = "linear_extract".into();
                    let mut export: HashMap<&String, LimitSink> = names.iter().map(|n| (n, LimitSink { n: 0, limit: OUT_LIMIT })).collect();
                    ("linear_extract", mla::helpers::linear_extract(&mut ar, &mut export).is_ok())
                }
            };
            if had_err {
                outcomes.push((format!("after_error:{op}"), ok));
            } else {
                outcomes.push((op.to_string(), ok));
            }
            if !ok {
                had_err = true;
            }
        }
        *cur_op.borrow_mut() = "drop".into();
        drop(ar);
        (outcomes, src.calls, src.reads_after_eof)
    });
    let m1 = alloc::stats();
    match r {
        Ok((outcomes, calls, rae)) => {
            src_stats = (calls, rae);
            for (op, ok) in outcomes {
                ctx.count(&format!("outcome:{tag}:{op}:{}", if ok { "ok" } else { "err" }));
                if op.starts_with("after_error") {
                    ctx.count("after_error_continuations");
                }
            }
        }
        Err((loc, msg)) => {
            let op = cur_op.borrow().clone();
            ctx.count(&format!("outcome:{tag}:{op}:panic"));
            findings.push(Finding { sig: format!("panic:{loc}:{}", msg_class(&msg)), detail: json!({"panic": msg, "at": loc, "operation": op}) });
        }
    }
    check_resources(&mut findings, "reader", m0, m1, ceiling, src_stats, step_bound, raw.len());
    ctx.max("largest_single_allocation", m1.largest);
    ctx.max("source_read_calls_per_input_byte_x100", src_stats.0 * 100 / (raw.len() as u64 + 1));
    // ---- repair, both modes
    let encrypted = raw.len() > 8 && raw[7] & 1 != 0;
    let modes: &[Mode] = if encrypted { &[Mode::Auth, Mode::Unauth] } else { &[Mode::Auth] };
    for &mode in modes {
        let m0 = alloc::mark();
        let mut st = (0u64, 0u64);
        let r = guarded(|| {
            let mut src = ThrottledSrc::new(raw, Sched::All);
            src.max_calls = step_bound;
            let res = repair_to_sink(&mut src, sks, mode);
            (res, src.calls, src.reads_after_eof)
        });
        let m1 = alloc::stats();
        let ms = if mode == Mode::Auth { "repair" } else { "repair_unauth" };
        match r {
            Ok((res, calls, rae)) => {
                st = (calls, rae);
                ctx.count(&format!("outcome:{tag}:{ms}:{}", if res { "ok" } else { "err" }));
            }
            Err((loc, msg)) => {
                ctx.count(&format!("outcome:{tag}:{ms}:panic"));
                findings.push(Finding { sig: format!("panic:{loc}:{}", msg_class(&msg)), detail: json!({"panic": msg, "at": loc, "operation": ms}) });
            }
        }
        check_resources(&mut findings, ms, m0, m1, ceiling, st, step_bound, raw.len());
        ctx.max("largest_single_allocation", m1.largest);
    }
    findings
}

fn repair_to_sink<R: Read>(src: R, sks: &[[u8; 32]], mode: Mode) -> bool {
    let mut cfg = drv::reader_config(sks);
    match mode {
        Mode::Auth => cfg.failsafe_return_only_authenticated_data(),
        Mode::Unauth => cfg.failsafe_return_data_even_unauthenticated(),
    };
    let Ok(mut fs) = mla::ArchiveFailSafeReader::from_config(src, cfg) else { return false };
    let mut wc = mla::config::ArchiveWriterConfig::new();
    wc.set_layers(mla::Layers::EMPTY);
    let Ok(mut out) = mla::ArchiveWriter::from_config(LimitSink { n: 0, limit: OUT_LIMIT }, wc) else { return false };
    fs.convert_to_archive(&mut out).is_ok()
}

#[allow(clippy::too_many_arguments)]
fn check_resources(findings: &mut Vec<Finding>, op: &str, m0: alloc::Stats, m1: alloc::Stats, ceiling: u64, src: (u64, u64), step_bound: u64, input_len: usize) {
    if m1.largest > ceiling {
        findings.push(Finding {
            sig: format!("allocation-out-of-proportion:{op}"),
            detail: json!({"largest_single_request": m1.largest, "ceiling": ceiling, "input_len": input_len}),
        });
    } else if m1.peak.saturating_sub(m0.live) > ceiling {
        findings.push(Finding {
            sig: format!("memory-out-of-proportion:{op}"),
            detail: json!({"peak_live_growth": m1.peak.saturating_sub(m0.live), "ceiling": ceiling, "input_len": input_len}),
        });
    }
    if src.0 > step_bound {
        findings.push(Finding { sig: format!("step-bound-exceeded:{op}"), detail: json!({"source_read_calls": src.0, "bound": step_bound, "input_len": input_len}) });
    }
    if src.1 > 10_000 {
        findings.push(Finding { sig: format!("reads-after-eof:{op}"), detail: json!({"reads_after_first_eof": src.1, "input_len": input_len}) });
    }
}

pub fn run_case(ctx: &mut Ctx, c: &Case) {
    let k = ctx.k;
    let (raw, sks) = build_hostile(c, &k);
    let tag = match (&c.base, &c.forge) {
        (Base::Prog(_), Some(_)) => "forged",
        (Base::Prog(_), None) => "mutated",
        (Base::Empty, _) => "empty",
        _ => "random",
    };
    ctx.eval(model::prng::fnv(&raw) ^ c.ops_seed, !raw.is_empty());
    for (_, m) in &c.muts {
        ctx.count(&format!("mutation:{}", m.kind()));
    }
    if let Some(f) = &c.forge {
        let name = format!("{f:?}");
        ctx.count(&format!("forge:{}", name.split('(').next().unwrap_or("?")));
    }
    ctx.sample(|| json!({"case": c, "hostile_len": raw.len()}));
    for f in exercise(ctx, &raw, &sks, c.ops_seed, tag) {
        ctx.violation("C08", &f.sig, json!({"case": c, "k": k.name()}), f.detail);
    }
}

pub fn run(ctx: &mut Ctx) {
    let cs = cases(ctx);
    for (i, c) in cs.iter().enumerate() {
        if !ctx.mine(i as u64) {
            continue;
        }
        if !ctx.time_left() {
            break;
        }
        if ctx.journal(&json!({"prop": "C08", "scenario": {"case": c, "k": ctx.k.name()}})) {
            run_case(ctx, c);
        }
    }
}

pub fn replay(ctx: &mut Ctx, scenario: &Value) -> Result<(), String> {
    let c: Case = serde_json::from_value(scenario["case"].clone()).map_err(|e| e.to_string())?;
    run_case(ctx, &c);
    Ok(())
}
