//! C16 — the command-line extractor never writes outside the output directory.
//! Two observers around the real `mlar` binary: an strace log of every
//! file-mutating syscall, and a recursive snapshot of the sandbox.
use crate::ctx::Ctx;
use mla::config::ArchiveWriterConfig;
use mla::{ArchiveWriter, Layers};
use model::prng::Rng;
use serde::{Deserialize, Serialize};
use serde_json::{json, Value};
use std::collections::{BTreeMap, BTreeSet};
use std::path::{Path, PathBuf};
use std::process::Command;

#[derive(Clone, Debug, Serialize, Deserialize)]
pub struct Case {
    /// member names; "{SB}" is replaced by the absolute sandbox path
    pub names: Vec<String>,
    /// 0 whole archive (linear), 1 listed names, 2 glob
    pub form: u8,
    pub absolute_out: bool,
    /// spelling of a relative output argument: 0 "out", 1 "./out", 2 "out/", 3 "x/../out"
    #[serde(default)]
    pub out_style: u8,
    pub out_exists: bool,
    /// a directory symlink inside the output directory pointing outside
    pub symlink_in_out: bool,
    pub seed: u64,
    /// members written interleaved, two blocks each (more of them open at once than the extractor's
    /// pool of 1000 open output files when there are more than 1000 names)
    #[serde(default)]
    pub interleaved: bool,
}

fn component(rng: &mut Rng, i: usize) -> String {
    match rng.below(14) {
        0 => String::new(),
        1 => ".".into(),
        2 | 3 => "..".into(),
        4 => "é日本 語".into(),
        5 => "L".repeat(255),
        6 => "M".repeat(256),
        7 => "name with space".into(),
        8 => "link_out".into(),
        9 => "canary".into(),
        10 => (*rng.pick(&["notes..txt", "...", "..hidden", "trailing..", "v1..2", "a.b", ".hidden", "...."])).to_string(),
        _ => format!("{}{}", ["dir", "file", "a", "b.txt", "sub"][rng.usize_below(5)], i),
    }
}

fn gen_name(rng: &mut Rng) -> String {
    match rng.below(19) {
        16 => if rng.chance(1, 2) { "link_out/existing".into() } else { format!("link_sib/pwned-sib{}", rng.below(9)) },
        17 => if rng.chance(1, 2) { "filelink".into() } else { "danglelink".into() },
        18 => format!("{}/inner{}", "N".repeat(255), rng.below(9)),
        0 => "{SB}/canary/pwned-abs".into(),
        1 => "../canary/pwned-rel".into(),
        2 => "dir/../../canary/pwned-mid".into(),
        3 => "link_out/pwned-link".into(),
        4 => "/".into(),
        5 => String::new(),
        6 => "{SB}/sibling/pwned-sibling".into(),
        7 => "a/b/../../../../canary/pwned-deep".into(),
        _ => {
            let depth = 1 + rng.usize_below(5);
            let mut comps: Vec<String> = (0..depth).map(|i| component(rng, i)).collect();
            // `..` after enough normal components to stay inside
            if rng.chance(1, 6) {
                comps = vec!["x".into(), "y".into(), "..".into(), format!("z{}", rng.below(9))];
            }
            let mut s = comps.join("/");
            if rng.chance(1, 5) {
                s.insert(0, '/');
            }
            if rng.chance(1, 8) {
                s.push('/');
            }
            s
        }
    }
}

pub fn cases(ctx: &Ctx) -> Vec<Case> {
    let mut v = Vec::new();
    if !ctx.k.is_prod() {
        return v;
    }
    let mut rng = Rng::derive(ctx.seed, &[0xC16]);
    let n = if ctx.quick() { 1600 } else { 60000 };
    for i in 0..n {
        let nn = 1 + rng.usize_below(7);
        let mut names = BTreeSet::new();
        // always some benign members so that "must extract" is exercised
        names.insert(format!("ok/file{i}.txt"));
        if i % 3 == 0 {
            names.insert("/abs/benign.bin".to_string());
        }
        for _ in 0..nn {
            let nm = gen_name(&mut rng);
            if nm.len() < 60000 {
                names.insert(nm);
            }
        }
        v.push(Case { names: names.into_iter().collect(), form: (i % 3) as u8, absolute_out: i % 2 == 0, out_style: ((i / 2) % 4) as u8, out_exists: i % 4 != 3, symlink_in_out: i % 5 == 0, seed: rng.next(), interleaved: false });
    }
    // many members open at the same time: 1100 (more than the pool of output files) and 900 (fewer)
    for (j, count) in [1100usize, 900].into_iter().enumerate() {
        let names: Vec<String> = (0..count).map(|i| format!("many/d{}/m{i}.bin", i % 7)).collect();
        for form in [0u8, 2] {
            v.push(Case { names: names.clone(), form, absolute_out: j == 0, out_style: 0, out_exists: true, symlink_in_out: false, seed: rng.next(), interleaved: true });
        }
    }
    v
}

fn content_for(name: &str, seed: u64) -> Vec<u8> {
    let mut r = Rng::derive(seed, &[model::prng::fnv(name.as_bytes())]);
    let n = r.usize_below(300);
    let mut v = format!("content of {:?}:", name.chars().take(30).collect::<String>()).into_bytes();
    v.extend(r.bytes(n));
    v
}

/// normalisation of a member name as the statement describes it
fn normalise(name: &str) -> Option<Vec<String>> {
    let mut out = Vec::new();
    for c in name.split('/') {
        match c {
            "" | "." => {}
            ".." => return None,
            x => out.push(x.to_string()),
        }
    }
    if out.is_empty() {
        None
    } else {
        Some(out)
    }
}

type Snapshot = BTreeMap<PathBuf, (String, u64, String)>;

fn snapshot(root: &Path, skip: &Path) -> Snapshot {
    let mut m = Snapshot::new();
    fn walk(p: &Path, skip: &Path, m: &mut Snapshot) {
        let Ok(rd) = std::fs::read_dir(p) else { return };
        for e in rd.flatten() {
            let path = e.path();
            if path == skip {
                continue;
            }
            let Ok(md) = std::fs::symlink_metadata(&path) else { continue };
            let ft = md.file_type();
            if ft.is_symlink() {
                m.insert(path.clone(), ("symlink".into(), 0, format!("{:?}", std::fs::read_link(&path).ok())));
            } else if ft.is_dir() {
                m.insert(path.clone(), ("dir".into(), 0, String::new()));
                walk(&path, skip, m);
            } else {
                let data = std::fs::read(&path).unwrap_or_default();
                m.insert(path.clone(), ("file".into(), md.len(), hex::encode(model::fmt::sha256(&data))));
            }
        }
    }
    walk(root, skip, &mut m);
    m
}

fn unhex(s: &str) -> Vec<u8> {
    // strace -xx: "\x2f\x74..."
    let b = s.as_bytes();
    let mut out = Vec::new();
    let mut i = 0;
    while i < b.len() {
        if b[i] == b'\\' && i + 3 < b.len() && b[i + 1] == b'x' {
            if let Ok(v) = u8::from_str_radix(&s[i + 2..i + 4], 16) {
                out.push(v);
            }
            i += 4;
        } else {
            out.push(b[i]);
            i += 1;
        }
    }
    out
}

/// (syscall, path) of every successful file-mutating syscall in an strace -xx log
fn mutating_syscalls(log: &str) -> Vec<(String, PathBuf)> {
    use std::os::unix::ffi::OsStringExt;
    let mut v = Vec::new();
    for line in log.lines() {
        // "<pid> name(args) = ret"
        let Some(eq) = line.rfind(") = ") else { continue };
        let ret = line[eq + 4..].trim();
        if ret.starts_with('-') {
            continue;
        }
        let head = &line[..eq];
        let Some(par) = head.find('(') else { continue };
        let name = head[..par].rsplit(' ').next().unwrap_or("").to_string();
        let args = &head[par + 1..];
        let strings: Vec<Vec<u8>> = {
            let mut out = Vec::new();
            let mut rest = args;
            while let Some(a) = rest.find('"') {
                let after = &rest[a + 1..];
                let Some(b) = after.find('"') else { break };
                out.push(unhex(&after[..b]));
                rest = &after[b + 1..];
            }
            out
        };
        let path = |i: usize| strings.get(i).map(|b| PathBuf::from(std::ffi::OsString::from_vec(b.clone())));
        match name.as_str() {
            "open" | "openat" | "creat" | "openat2" => {
                let mutating = name == "creat" || ["O_WRONLY", "O_RDWR", "O_CREAT", "O_TRUNC", "O_APPEND"].iter().any(|f| args.contains(f));
                if mutating {
                    if let Some(p) = path(0) {
                        v.push((name.clone(), p));
                    }
                }
            }
            "mkdir" | "mkdirat" | "unlink" | "unlinkat" | "rmdir" | "truncate" | "chmod" | "fchmodat" | "chown" | "lchown" | "fchownat" | "mknod" | "mknodat" | "utimensat" => {
                if let Some(p) = path(0) {
                    v.push((name.clone(), p));
                }
            }
            "rename" | "renameat" | "renameat2" | "link" | "linkat" | "symlink" | "symlinkat" => {
                for i in 0..2 {
                    if let Some(p) = path(i) {
                        if !(name.starts_with("symlink") && i == 0) {
                            v.push((name.clone(), p));
                        }
                    }
                }
            }
            _ => {}
        }
    }
    v
}

/// canonical location of a path that may not exist: canonical parent + file name
fn resolve(cwd: &Path, p: &Path) -> PathBuf {
    let abs = if p.is_absolute() { p.to_path_buf() } else { cwd.join(p) };
    if let Ok(c) = std::fs::canonicalize(&abs) {
        return c;
    }
    match (abs.parent(), abs.file_name()) {
        (Some(par), Some(f)) => resolve(cwd, par).join(f),
        _ => abs,
    }
}

pub fn run_case(ctx: &mut Ctx, c: &Case) {
    let mlar = PathBuf::from(std::env::var("VERIF_MLAR").unwrap_or_else(|_| "/verif/target/repo-bin/debug/mlar".into()));
    let base = PathBuf::from(ctx.out_dir.clone().unwrap_or_else(|| "/verif/scratch".into()));
    let sb = base.join(format!("c16-{}-{}", std::process::id(), ctx.case_index));
    let _ = std::fs::remove_dir_all(&sb);
    std::fs::create_dir_all(sb.join("canary")).unwrap();
    std::fs::create_dir_all(sb.join("sibling")).unwrap();
    std::fs::create_dir_all(sb.join("out.old")).unwrap();
    std::fs::write(sb.join("canary/existing"), b"canary content").unwrap();
    std::fs::write(sb.join("sibling/existing"), b"sibling content").unwrap();
    let sb = std::fs::canonicalize(&sb).unwrap();
    let sbs = sb.to_string_lossy().to_string();
    let names: Vec<String> = c.names.iter().map(|n| n.replace("{SB}", &sbs)).collect();
    ctx.eval(model::prng::fnv(format!("{c:?}").as_bytes()), names.len() >= 2);
    ctx.count(&format!("form:{}", ["whole_archive_linear", "listed_names", "glob"][c.form as usize % 3]));
    ctx.count(if c.absolute_out { "outdir:absolute" } else { "outdir:relative" });
    ctx.sample(|| json!({"case": c}));
    // build the archive with the library (arbitrary names cannot be produced by `mlar create`)
    let mut cfg = ArchiveWriterConfig::new();
    cfg.set_layers(Layers::EMPTY);
    let mut w = ArchiveWriter::from_config(Vec::new(), cfg).unwrap();
    let mut contents: BTreeMap<String, Vec<u8>> = BTreeMap::new();
    if c.interleaved {
        ctx.count(if names.len() > 1000 { "musthit:more_members_open_at_once_than_the_output_pool" } else { "interleaved_members" });
        let mut ids = Vec::new();
        for n in &names {
            if let Ok(id) = w.start_file(n) {
                ids.push((id, n.clone(), content_for(n, c.seed)));
            }
        }
        for half in 0..2 {
            for (id, _, data) in &ids {
                let mid = data.len() / 2;
                let part = if half == 0 { &data[..mid] } else { &data[mid..] };
                w.append_file_content(*id, part.len() as u64, part).unwrap();
            }
        }
        for (id, n, data) in ids {
            w.end_file(id).unwrap();
            contents.insert(n, data);
        }
    } else {
        for n in &names {
            let data = content_for(n, c.seed);
            if w.add_file(n, data.len() as u64, &data[..]).is_ok() {
                contents.insert(n.clone(), data);
            }
        }
    }
    w.finalize().unwrap();
    std::fs::write(sb.join("a.mla"), w.into_raw()).unwrap();
    let out = sb.join("out");
    if c.out_exists || c.symlink_in_out {
        std::fs::create_dir_all(&out).unwrap();
    }
    if c.symlink_in_out {
        let _ = std::os::unix::fs::symlink("../canary", out.join("link_out"));
        // a sibling directory whose path starts, as a string, with the path of the output directory
        let _ = std::os::unix::fs::symlink("../out.old", out.join("link_sib"));
        // and a symlink to an existing file outside
        let _ = std::os::unix::fs::symlink("../canary/existing", out.join("filelink"));
        // and a dangling one (its target, outside, does not exist yet)
        let _ = std::os::unix::fs::symlink("../canary/not-there-yet", out.join("danglelink"));
    }
    if !c.absolute_out && c.out_style % 4 == 3 {
        let _ = std::fs::create_dir_all(sb.join("x"));
    }
    let before = snapshot(&sb, &out);
    // classes of names, for the must-hit evidence
    for n in contents.keys() {
        if n.starts_with('/') {
            ctx.count("musthit:absolute_name");
        }
        if c.symlink_in_out && n.starts_with("link_sib/") {
            ctx.count("musthit:member_through_a_link_to_a_sibling_with_the_same_path_prefix");
        }
        if n.split('/').any(|x| x.contains("..") && x != "..") {
            ctx.count("musthit:dots_that_are_not_a_parent_directory_component");
        }
        if c.symlink_in_out && n == "danglelink" {
            ctx.count("musthit:member_at_a_dangling_symlink");
        }
        if c.symlink_in_out && (n == "link_out/existing" || n == "filelink") {
            ctx.count("musthit:member_reaching_an_existing_outside_file_through_a_symlink");
        }
        if n.split('/').any(|x| x.len() == 255) {
            ctx.count("musthit:component_of_exactly_255_bytes");
        }
        let comps: Vec<&str> = n.split('/').collect();
        if comps.iter().skip(1).any(|x| *x == "..") && comps.first() != Some(&"..") {
            ctx.count("musthit:dotdot_in_the_middle");
        }
    }
    // run under strace
    let log = sb.join("strace.log");
    let out_arg = if c.absolute_out {
        out.to_string_lossy().to_string()
    } else {
        match c.out_style % 4 {
            0 => "out".to_string(),
            1 => "./out".to_string(),
            2 => "out/".to_string(),
            _ => {
                let _ = std::fs::create_dir_all(sb.join("x"));
                "x/../out".to_string()
            }
        }
    };
    ctx.count(&format!("outarg:{}", if c.absolute_out { "absolute".to_string() } else { format!("relative_style{}", c.out_style % 4) }));
    let mut cmd = Command::new("strace");
    cmd.current_dir(&sb).args(["-f", "-qq", "-xx", "-s", "70000", "-e", "trace=%file", "-o"]).arg(&log).arg(&mlar).args(["extract", "-i", "a.mla", "-o", &out_arg]);
    let chosen: Vec<String> = match c.form % 3 {
        0 => vec![],
        1 => {
            // the command takes a single member name
            let mut r = Rng::new(c.seed);
            let keys: Vec<&String> = contents.keys().collect();
            vec![(*r.pick(&keys)).clone()]
        }
        _ => vec!["*".to_string()],
    };
    if c.form % 3 == 2 {
        cmd.arg("-g");
    }
    if !chosen.is_empty() {
        cmd.arg("--");
        cmd.args(&chosen);
    }
    let res = cmd.output();
    let scen = || json!({"case": c, "k": "prod"});
    let Ok(res) = res else {
        eprintln!("HARNESS-ERROR cannot run strace / mlar");
        std::process::exit(2);
    };
    let code = res.status.code();
    ctx.count(&format!("exit:{}", code.map_or("signal".to_string(), |c| c.to_string())));
    if code.is_none() || code == Some(101) {
        ctx.violation("C08", "mlar-extract-crashed", scen(), json!({"status": format!("{:?}", res.status), "stderr": String::from_utf8_lossy(&res.stderr).chars().take(400).collect::<String>()}));
    }
    let logtxt = std::fs::read_to_string(&log).unwrap_or_default();
    let _ = std::fs::remove_file(&log);
    let out_canon = std::fs::canonicalize(&out).unwrap_or_else(|_| out.clone());
    // ---- observer (i): syscalls
    let muts = mutating_syscalls(&logtxt);
    if muts.is_empty() && code == Some(0) && !contents.is_empty() {
        ctx.count("strace_saw_no_mutation");
    }
    for (sc, p) in &muts {
        let r = resolve(&sb, p);
        ctx.count("syscalls_classified");
        let inside = r == out_canon || r.starts_with(&out_canon);
        let harmless = r.starts_with("/dev") || r.starts_with("/proc");
        if inside || harmless {
            ctx.count("syscalls_inside_output_dir");
        } else {
            ctx.violation(
                "C16",
                &format!("syscall-outside-output-dir:{sc}:form{}", c.form % 3),
                scen(),
                json!({"syscall": sc, "path": r.to_string_lossy().chars().take(300).collect::<String>(), "output_dir": out_canon.to_string_lossy()}),
            );
        }
    }
    // ---- observer (ii): snapshot of everything but the output directory
    let after = snapshot(&sb, &out);
    if before != after {
        let changed: Vec<String> = after.iter().filter(|(k, v)| before.get(*k) != Some(v)).map(|(k, _)| k.to_string_lossy().chars().take(200).collect()).chain(before.keys().filter(|k| !after.contains_key(*k)).map(|k| format!("removed {}", k.to_string_lossy()))).take(5).collect();
        ctx.violation("C16", &format!("sandbox-changed-outside-output-dir:form{}", c.form % 3), scen(), json!({"changed": changed}));
    } else {
        ctx.count("snapshot_unchanged_outside_output_dir");
    }
    // ---- extractable members must be there with their exact content
    let selected: BTreeSet<&String> = if c.form % 3 == 1 { chosen.iter().collect() } else { contents.keys().collect() };
    let norms: BTreeMap<&String, Option<Vec<String>>> = contents.keys().map(|n| (n, normalise(n))).collect();
    let os_limits_ok = norms.values().flatten().all(|v| v.iter().all(|x| x.len() <= 255) && v.iter().map(|x| x.len() + 1).sum::<usize>() + out_canon.as_os_str().len() < 4000);
    let all_norm: Vec<&Vec<String>> = norms.values().flatten().collect();
    let conflict = |v: &Vec<String>| all_norm.iter().filter(|o| ***o == *v).count() > 1 || all_norm.iter().any(|o| o.len() != v.len() && (o.starts_with(v) || v.starts_with(o)));
    let any_conflict = all_norm.iter().any(|v| conflict(v));
    // a member whose path goes through the pre-existing symlink is refused by design (containment)
    let through_symlink = |v: &Vec<String>| c.symlink_in_out && v.first().is_some_and(|x| x == "link_out" || x == "link_sib" || x == "filelink" || x == "danglelink");
    let symlink_involved = all_norm.iter().any(|v| through_symlink(v));
    if os_limits_ok && !any_conflict && !symlink_involved {
        ctx.count("archives_subject_to_must_extract");
        if code != Some(0) {
            ctx.violation("C16", &format!("benign-archive-not-extracted:exit{:?}:form{}", code, c.form % 3), scen(), json!({"stderr": String::from_utf8_lossy(&res.stderr).chars().take(400).collect::<String>()}));
        } else {
            for (n, nv) in &norms {
                let Some(nv) = nv else { continue };
                if !selected.contains(n) || through_symlink(nv) {
                    continue;
                }
                let p = nv.iter().fold(out_canon.clone(), |acc, x| acc.join(x));
                match std::fs::read(&p) {
                    Ok(d) if d == contents[*n] => ctx.count("members_extracted_exactly"),
                    Ok(d) => ctx.violation("C16", &format!("extracted-content-differs:form{}", c.form % 3), scen(), json!({"member": n.chars().take(120).collect::<String>(), "expected": contents[*n].len(), "got": d.len()})),
                    Err(e) => ctx.violation("C16", &format!("extractable-member-missing:form{}", c.form % 3), scen(), json!({"member": n.chars().take(120).collect::<String>(), "error": e.to_string()})),
                }
            }
        }
    } else {
        ctx.count("archives_subject_to_containment_only");
    }
    let _ = std::fs::remove_dir_all(&sb);
}

pub fn run(ctx: &mut Ctx) {
    let cs = cases(ctx);
    for (i, c) in cs.iter().enumerate() {
        if !ctx.mine(i as u64) {
            continue;
        }
        if !ctx.time_left() {
            break;
        }
        if ctx.journal(&json!({"prop": "C16", "scenario": {"case": c, "k": "prod"}})) {
            run_case(ctx, c);
        }
    }
}

pub fn replay(ctx: &mut Ctx, scenario: &Value) -> Result<(), String> {
    let c: Case = serde_json::from_value(scenario["case"].clone()).map_err(|e| e.to_string())?;
    run_case(ctx, &c);
    Ok(())
}
