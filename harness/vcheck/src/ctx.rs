//! Run context: counters, fingerprints, samples, violation records, journal.
//! Everything is emitted as JSON lines on stdout for the orchestrator.
use model::consts::K;
use serde_json::{json, Value};
use std::collections::{BTreeMap, HashSet};
use std::io::Write;
use std::time::Instant;

#[derive(Clone, Copy, PartialEq, Eq, Debug)]
pub enum Tier {
    Quick,
    Thorough,
}

pub struct Ctx {
    pub prop: String,
    pub tier: Tier,
    pub seed: u64,
    pub shard: usize,
    pub nshards: usize,
    pub k: K,
    pub start: Instant,
    pub budget_s: f64,
    pub evaluations: u64,
    pub counters: BTreeMap<String, u64>,
    fps: HashSet<u64>,
    samples: Vec<Value>,
    viol_per_sig: BTreeMap<String, u64>,
    journal: Option<std::fs::File>,
    pub case_index: u64,
    pub out_dir: Option<String>,
    pub timed_out: bool,
    pub resume_after: u64,
    pub cand: Option<u64>,
}

/// wall-clock watchdog: a case running longer than the limit ends the process with
/// exit code 3 (inconclusive, never a violation); the orchestrator resumes after it
pub static CASE_START_MS: std::sync::atomic::AtomicU64 = std::sync::atomic::AtomicU64::new(0);
/// longest CPU time (ms) a case of this shard spent without any observable step (progress monitor)
pub static MAX_EVENTLESS_CPU_MS: std::sync::atomic::AtomicU64 = std::sync::atomic::AtomicU64::new(0);
static EPOCH: std::sync::OnceLock<Instant> = std::sync::OnceLock::new();

fn now_ms() -> u64 {
    EPOCH.get_or_init(Instant::now).elapsed().as_millis() as u64 + 1
}

/// CPU time (user + system) of this process, in seconds, from /proc/self/stat.
/// Allocation-free: the monitor's own sampling must not count as a step of the case.
fn cpu_seconds(f: &mut std::fs::File) -> Option<f64> {
    use std::io::{Read, Seek, SeekFrom};
    let mut buf = [0u8; 1024];
    f.seek(SeekFrom::Start(0)).ok()?;
    let n = f.read(&mut buf).ok()?;
    let s = &buf[..n];
    let close = s.iter().rposition(|&b| b == b')')?;
    // after the command name: state is field 0, utime field 11, stime field 12
    let mut it = s[close + 1..].split(|&b| b == b' ').filter(|w| !w.is_empty());
    let num = |w: &[u8]| -> Option<f64> {
        let mut v = 0u64;
        for &c in w {
            if !c.is_ascii_digit() {
                return None;
            }
            v = v * 10 + u64::from(c - b'0');
        }
        Some(v as f64)
    };
    let ut = num(it.nth(11)?)?;
    let st = num(it.next()?)?;
    Some((ut + st) / 100.0)
}

/// Two monitors on the running case, from a side thread:
/// * wall-clock watchdog: exit code 3 (inconclusive, never a violation);
/// * progress monitor: the case has burnt `spin_cpu_s` seconds of CPU time during which not one
///   observable step happened (no allocator call, no read / seek / write on any source or sink
///   of the harness) - a loop that makes no progress. Decided on CPU time and logical events,
///   not on the wall clock, so machine load cannot produce it. Exit code 4: the orchestrator
///   records the journalled case as "spin-no-progress" and resumes after it.
pub fn start_watchdog(limit_s: u64, spin_cpu_s: u64) {
    let _ = now_ms();
    std::thread::spawn(move || {
        crate::alloc::IS_MONITOR.with(|m| m.set(true));
        let mut stat = std::fs::File::open("/proc/self/stat").ok();
        let mut last_events = u64::MAX;
        let mut cpu_at_change = 0.0_f64;
        let mut last_start = 0u64;
        loop {
            std::thread::sleep(std::time::Duration::from_millis(500));
            let st = CASE_START_MS.load(std::sync::atomic::Ordering::Relaxed);
            if st == 0 {
                last_events = u64::MAX;
                continue;
            }
            if now_ms().saturating_sub(st) > limit_s * 1000 {
                println!("{}", json!({"k": "inconc", "what": "watchdog", "detail": {"limit_s": limit_s}}));
                std::process::exit(3);
            }
            let ev = crate::alloc::EVENTS.load(std::sync::atomic::Ordering::Relaxed);
            let cpu = stat.as_mut().and_then(cpu_seconds);
            let Some(cpu) = cpu else { continue };
            if ev != last_events || st != last_start {
                last_events = ev;
                last_start = st;
                cpu_at_change = cpu;
            } else {
                MAX_EVENTLESS_CPU_MS.fetch_max(((cpu - cpu_at_change) * 1000.0) as u64, std::sync::atomic::Ordering::Relaxed);
            }
            if ev == last_events && st == last_start && cpu - cpu_at_change >= spin_cpu_s as f64 {
                println!("{}", json!({"k": "note", "what": "spin-no-progress", "detail": {"cpu_s_without_event": cpu - cpu_at_change, "events": ev}}));
                std::process::exit(4);
            }
        }
    });
}

thread_local! {
    pub static LAST_PANIC: std::cell::RefCell<Option<(String, String)>> = const { std::cell::RefCell::new(None) };
}

pub fn install_panic_hook() {
    std::panic::set_hook(Box::new(|info| {
        let loc = info.location().map_or("?".to_string(), |l| {
            let f = l.file();
            // keep paths stable: strip everything up to the repository / registry root
            let f = f.rsplit_once("/repo/").map_or(f, |x| x.1);
            let f = f.rsplit_once("/registry/src/").map_or(f, |x| x.1);
            format!("{f}:{}", l.line())
        });
        let msg = if let Some(s) = info.payload().downcast_ref::<&str>() {
            (*s).to_string()
        } else if let Some(s) = info.payload().downcast_ref::<String>() {
            s.clone()
        } else {
            "non-string panic".to_string()
        };
        LAST_PANIC.with(|p| *p.borrow_mut() = Some((loc, msg)));
    }));
}

/// Run `f`, catching panics; on panic returns (location, message)
pub fn guarded<T>(f: impl FnOnce() -> T) -> Result<T, (String, String)> {
    LAST_PANIC.with(|p| *p.borrow_mut() = None);
    match std::panic::catch_unwind(std::panic::AssertUnwindSafe(f)) {
        Ok(v) => Ok(v),
        Err(_) => {
            let (loc, msg) = LAST_PANIC.with(|p| p.borrow_mut().take()).unwrap_or(("?".into(), "?".into()));
            if msg.starts_with("HARNESS-STEP-BOUND") {
                // not a crash of the code under test: the harness's logical-step bound unwound a loop that does not end
                Err(("loops-without-bound".into(), msg))
            } else {
                Err((loc, msg))
            }
        }
    }
}

/// Message class: digits removed so that the same site with other numbers matches
pub fn msg_class(m: &str) -> String {
    let mut s: String = m.chars().map(|c| if c.is_ascii_digit() { '#' } else { c }).collect();
    while s.contains("##") {
        s = s.replace("##", "#");
    }
    s.truncate(80);
    s
}

impl Ctx {
    pub fn new(prop: &str, tier: Tier, seed: u64, shard: usize, nshards: usize, k: K, budget_s: f64, out_dir: Option<String>) -> Ctx {
        let journal = out_dir.as_ref().map(|d| {
            std::fs::OpenOptions::new()
                .create(true)
                .write(true)
                .truncate(true)
                .open(format!("{d}/journal.{shard}"))
                .expect("journal")
        });
        Ctx {
            prop: prop.to_string(),
            tier,
            seed,
            shard,
            nshards,
            k,
            start: Instant::now(),
            budget_s,
            evaluations: 0,
            counters: BTreeMap::new(),
            fps: HashSet::new(),
            samples: Vec::new(),
            viol_per_sig: BTreeMap::new(),
            journal,
            case_index: 0,
            out_dir,
            timed_out: false,
            resume_after: 0,
            cand: None,
        }
    }

    pub fn quick(&self) -> bool {
        self.tier == Tier::Quick
    }

    pub fn mine(&self, idx: u64) -> bool {
        idx % self.nshards as u64 == self.shard as u64
    }

    pub fn count(&mut self, name: &str) {
        *self.counters.entry(name.to_string()).or_insert(0) += 1;
    }
    pub fn add(&mut self, name: &str, n: u64) {
        *self.counters.entry(name.to_string()).or_insert(0) += n;
    }
    pub fn max(&mut self, name: &str, n: u64) {
        let e = self.counters.entry(format!("max:{name}")).or_insert(0);
        if n > *e {
            *e = n;
        }
    }

    /// one evaluated case; `fp` identifies it, `nontrivial` by the property's rule
    pub fn eval(&mut self, fp: u64, nontrivial: bool) {
        self.evaluations += 1;
        if nontrivial {
            self.fps.insert(fp);
        }
    }

    pub fn sample(&mut self, v: impl FnOnce() -> Value) {
        if self.samples.len() < 4 {
            let v = v();
            self.samples.push(v);
        }
    }

    pub fn time_left(&mut self) -> bool {
        if self.start.elapsed().as_secs_f64() > self.budget_s {
            self.timed_out = true;
            false
        } else {
            true
        }
    }

    /// Record the case about to run, so that a process death can be attributed
    pub fn journal(&mut self, case: &Value) -> bool {
        self.case_index += 1;
        if self.case_index <= self.resume_after {
            return false;
        }
        CASE_START_MS.store(now_ms(), std::sync::atomic::Ordering::Relaxed);
        if let Some(j) = &mut self.journal {
            use std::os::unix::fs::FileExt;
            let mut s = serde_json::to_vec(&json!({"i": self.case_index, "case": case})).unwrap();
            s.push(b'\n');
            // fixed-position overwrite + truncate is not needed: pad to the longest seen
            let _ = j.set_len(0);
            let _ = j.write_all_at(&s, 0);
        }
        true
    }

    /// A violation of property `prop` (may differ from the property being run,
    /// e.g. crashes are forwarded to C08). `sig` is the stable signature used
    /// for de-duplication and known-finding matching.
    pub fn violation(&mut self, prop: &str, sig: &str, scenario: Value, detail: Value) {
        fn clip(v: &mut Value) {
            match v {
                Value::String(s) if s.len() > 400 => {
                    let mut cut = 400;
                    while !s.is_char_boundary(cut) {
                        cut -= 1;
                    }
                    let total = s.len();
                    s.truncate(cut);
                    s.push_str(&format!("...({total} bytes)"));
                }
                Value::Array(a) => a.iter_mut().for_each(clip),
                Value::Object(o) => o.values_mut().for_each(clip),
                _ => {}
            }
        }
        let mut detail = detail;
        clip(&mut detail);
        let key = format!("{prop}|{sig}");
        let n = self.viol_per_sig.entry(key).or_insert(0);
        *n += 1;
        if *n <= 3 {
            let rec = json!({"k": "viol", "prop": prop, "sig": sig, "scale": self.k.name(),
                "scenario": scenario, "detail": detail, "from": self.prop, "cand": self.cand});
            println!("{rec}");
        }
    }

    pub fn inconclusive(&mut self, what: &str, detail: Value) {
        self.count(&format!("inconclusive:{what}"));
        let rec = json!({"k": "inconc", "prop": self.prop, "what": what, "scale": self.k.name(), "detail": detail});
        println!("{rec}");
    }

    pub fn finish(mut self) {
        CASE_START_MS.store(0, std::sync::atomic::Ordering::Relaxed);
        self.counters.insert("max:eventless_cpu_ms".into(), MAX_EVENTLESS_CPU_MS.load(std::sync::atomic::Ordering::Relaxed));
        let viols: BTreeMap<String, u64> = self.viol_per_sig.clone();
        if let Some(d) = &self.out_dir {
            let mut f = std::fs::File::create(format!("{d}/fps.{}.{}", self.k.name(), self.shard)).expect("fps");
            let mut buf = Vec::with_capacity(self.fps.len() * 8);
            for x in &self.fps {
                buf.extend_from_slice(&x.to_le_bytes());
            }
            f.write_all(&buf).unwrap();
        }
        let rec = json!({"k": "stats", "prop": self.prop, "scale": self.k.name(), "shard": self.shard,
            "evaluations": self.evaluations, "distinct_nontrivial_shard": self.fps.len(),
            "counters": self.counters, "samples": self.samples, "viol_counts": viols,
            "timed_out": self.timed_out, "wall_s": self.start.elapsed().as_secs_f64()});
        println!("{rec}");
    }
}
