//! Truncation sweeps shared by C02 (soundness of repair) and C05 (completeness,
//! monotonicity, lower bound). One case = one program, one contiguous segment
//! of its sorted cut list; every cut is repaired in both decryption modes and
//! the output is read back with the normal reader.
use crate::ctx::{guarded, Ctx};
use crate::drv::{self, FileRead, Mode, Sched, Status};
use crate::xlate;
use model::consts::K;
use model::fmt::{self, Region};
use model::prng::Rng;
use model::prog::Program;
use serde::{Deserialize, Serialize};
use serde_json::{json, Value};
use std::collections::BTreeMap;

#[derive(Clone, Debug, Serialize, Deserialize, PartialEq, Eq, Hash)]
pub struct RegRef {
    pub kind: String,
    pub idx: usize,
    pub from_end: bool,
    pub delta: i64,
}

/// A cut position described relative to every structural region containing it
#[derive(Clone, Debug, Serialize, Deserialize, PartialEq, Eq, Hash)]
pub struct CutAt {
    pub refs: Vec<RegRef>,
    /// distance from the end of the archive (used when no region matches)
    pub from_eof: i64,
}

#[derive(Clone, Debug, Serialize, Deserialize)]
pub enum CutSel {
    /// every length 0..=len
    All,
    /// every length within `radius` of every structural boundary + `samples` random ones
    Windows { radius: u32, samples: u32, sseed: u64 },
    List(Vec<CutAt>),
}

#[derive(Clone, Debug, Serialize, Deserialize)]
pub struct Case {
    pub prog: Program,
    pub cuts: CutSel,
    /// segment i of n of the sorted cut list
    pub seg: (usize, usize),
    /// the archive comes from the independent encoder (another writer of the same format):
    /// (encoder seed, file id style: 0 sequential, 1 from 10 by steps of 3, 2 random u64)
    #[serde(default)]
    pub foreign: Option<(u64, u8)>,
}

pub struct Prepared {
    pub raw: Vec<u8>,
    pub expected: BTreeMap<String, Vec<u8>>,
    pub sks: Vec<[u8; 32]>,
    pub header_len: usize,
    pub regions: Vec<Region>,
    /// plaintext of the layer under the block stream when there is no compression
    /// (the block stream itself), for lower bounds
    pub stream: Option<Vec<u8>>,
    pub encrypted: bool,
    pub compressed: bool,
    pub flush_marks: Vec<(usize, BTreeMap<String, usize>)>,
    /// the independent decoder refuses the archive the writer produced
    pub model_rejects: Option<String>,
}

/// Archive of a case: written by the library, or by the independent encoder
pub fn prepare_case(c: &Case, k: &K) -> Result<Prepared, String> {
    let Some((enc_seed, style)) = c.foreign else { return prepare(&c.prog, k) };
    let p = &c.prog;
    let ids = match style {
        0 => crate::c06::IdStyle::Sequential,
        1 => crate::c06::IdStyle::From(10),
        _ => crate::c06::IdStyle::Random,
    };
    let (raw, sks) = crate::c06::model_encode(p, k, enc_seed, ids, false);
    let d = fmt::decode_archive(k, &raw, &sks).map_err(|e| format!("HARNESS: model cannot decode its own archive: {e}"))?;
    let regions = fmt::regions(k, &d, raw.len());
    let compressed = p.layers & 2 != 0;
    Ok(Prepared {
        header_len: d.header.len,
        regions,
        stream: if compressed { None } else { Some(d.stream.clone()) },
        encrypted: p.layers & 1 != 0,
        compressed,
        raw,
        expected: p.expected(k),
        sks,
        flush_marks: vec![],
        model_rejects: None,
    })
}

pub fn prepare(p: &Program, k: &K) -> Result<Prepared, String> {
    // (half of the archives get their file data from sources that return short reads)
    let b = drv::build_with_sources(p, k, Sched::All, if p.seed % 2 == 0 { Sched::Max(4095) } else { Sched::All })?;
    let d = match fmt::decode_archive(k, &b.raw, &b.sks) {
        Ok(d) => d,
        Err(e) => {
            // the writer's output is not what FORMAT.md describes (reported to C01 by the caller): no
            // model of the layout, so only the undamaged archive is repaired and judged against what
            // was written (C05 (a)), without lower bounds
            return Ok(Prepared {
                header_len: fmt::dec_header(&b.raw).map_or(0, |h| h.len),
                regions: vec![],
                stream: None,
                encrypted: p.layers & 1 != 0,
                compressed: p.layers & 2 != 0,
                raw: b.raw,
                expected: b.expected,
                sks: b.sks,
                flush_marks: b.flush_marks,
                model_rejects: Some(e),
            });
        }
    };
    let regions = fmt::regions(k, &d, b.raw.len());
    let compressed = p.layers & 2 != 0;
    Ok(Prepared {
        header_len: d.header.len,
        regions,
        stream: if compressed { None } else { Some(d.stream.clone()) },
        encrypted: p.layers & 1 != 0,
        compressed,
        raw: b.raw,
        expected: b.expected,
        sks: b.sks,
        flush_marks: b.flush_marks,
        model_rejects: None,
    })
}

pub fn describe_cut(pr: &Prepared, n: usize) -> CutAt {
    let mut refs = Vec::new();
    for r in &pr.regions {
        if n >= r.start && n <= r.end && r.end > r.start {
            let ds = (n - r.start) as i64;
            let de = (r.end - n) as i64;
            if de < ds {
                refs.push(RegRef { kind: r.kind.clone(), idx: r.idx, from_end: true, delta: de });
            } else {
                refs.push(RegRef { kind: r.kind.clone(), idx: r.idx, from_end: false, delta: ds });
            }
        }
    }
    // smallest distances first: these are the alignments that matter
    refs.sort_by_key(|r| r.delta);
    refs.truncate(6);
    CutAt { refs, from_eof: (pr.raw.len() - n) as i64 }
}

pub fn resolve_cut(pr: &Prepared, c: &CutAt) -> Vec<usize> {
    let mut v = Vec::new();
    for rr in &c.refs {
        if let Some(r) = pr.regions.iter().find(|r| r.kind == rr.kind && r.idx == rr.idx) {
            let n = if rr.from_end { r.end as i64 - rr.delta } else { r.start as i64 + rr.delta };
            if n >= 0 && n as usize <= pr.raw.len() && !v.contains(&(n as usize)) {
                v.push(n as usize);
            }
        }
    }
    let n = pr.raw.len() as i64 - c.from_eof;
    if n >= 0 && !v.contains(&(n as usize)) {
        v.push(n as usize);
    }
    v
}

pub fn cut_list(pr: &Prepared, sel: &CutSel) -> Vec<usize> {
    let len = pr.raw.len();
    let mut v: Vec<usize> = match sel {
        CutSel::All => (0..=len).collect(),
        CutSel::Windows { radius, samples, sseed } => {
            let mut v = Vec::new();
            let r = *radius as i64;
            for reg in &pr.regions {
                for edge in [reg.start, reg.end] {
                    for d in -r..=r {
                        let n = edge as i64 + d;
                        if n >= 0 && n as usize <= len {
                            v.push(n as usize);
                        }
                    }
                }
            }
            let mut rng = Rng::new(*sseed);
            for _ in 0..*samples {
                v.push(rng.usize_below(len + 1));
            }
            v.push(0);
            v.push(len);
            v
        }
        CutSel::List(l) => l.iter().flat_map(|c| resolve_cut(pr, c)).collect(),
    };
    v.sort_unstable();
    v.dedup();
    v
}

fn region_class(pr: &Prepared, n: usize) -> String {
    if n >= pr.raw.len() {
        return "complete".into();
    }
    if n < pr.header_len {
        return "header".into();
    }
    // the byte at position n is the first missing one
    let (kind, _) = fmt::region_of(&pr.regions, n);
    kind
}

/// Plaintext prefix (of the block stream) that repair may use, without compression
fn allowed_prefix<'a>(pr: &'a Prepared, k: &K, n: usize, mode: Mode) -> Option<&'a [u8]> {
    let stream = pr.stream.as_ref()?;
    if n < pr.header_len {
        return Some(&stream[..0]);
    }
    let m = (n - pr.header_len) as u64;
    if !pr.encrypted {
        return Some(&stream[..(m as usize).min(stream.len())]);
    }
    let ct = k.chunk_tag();
    let q = m / ct;
    let rem = m % ct;
    let body_len = (pr.raw.len() - pr.header_len) as u64;
    let p = match mode {
        Mode::Unauth => q * k.chunk + rem.min(k.chunk),
        Mode::Auth => {
            // complete chunks only; the final short chunk is complete only with its tag
            if m == body_len {
                stream.len() as u64
            } else {
                q * k.chunk
            }
        }
    };
    Some(&stream[..(p as usize).min(stream.len())])
}

pub struct Outcome {
    pub status: Status,
    pub files: BTreeMap<String, FileRead>,
}

/// Clause checks. Returns (property, clause signature, message) for each violated clause.
pub fn judge(pr: &Prepared, k: &K, n: usize, mode: Mode, res: &Result<Outcome, String>) -> Vec<(&'static str, String, String)> {
    let mut v = Vec::new();
    let out = match res {
        Err(e) => {
            if n < pr.header_len {
                return v; // header incomplete: refusing is legal
            }
            let cls = if e.contains("HARNESS-OUTPUT-CAP") {
                "repair-output-unbounded"
            } else if e.starts_with("UNREADABLE-OUTPUT") {
                "output-unreadable"
            } else if e.starts_with("failsafe open") {
                "repair-refused"
            } else {
                "repair-error"
            };
            v.push(("C02", cls.to_string(), e.clone()));
            return v;
        }
        Ok(o) => o,
    };
    let unfinished: Vec<String> = match &out.status {
        Status::Unfinished(f, _) => f.clone(),
        _ => vec![],
    };
    for (name, fr) in &out.files {
        let Some(orig) = pr.expected.get(name) else {
            v.push(("C02", "foreign-name".into(), format!("repaired archive lists {:?}, not in the original", drv::short(name))));
            continue;
        };
        if !orig.starts_with(&fr.data) {
            v.push(("C02", "not-a-prefix".into(), format!("file {:?}: {}", drv::short(name), drv::diff_desc(orig, &fr.data))));
        } else if fr.data.len() < orig.len() && !unfinished.contains(name) {
            v.push((
                "C02",
                "incomplete-not-reported".into(),
                format!("file {:?} has {} of {} bytes but is not reported as unfinished (status {})", drv::short(name), fr.data.len(), orig.len(), out.status.class()),
            ));
        }
    }
    if out.status == Status::EndOfData {
        for (name, orig) in &pr.expected {
            match out.files.get(name) {
                Some(fr) if fr.data == *orig => {}
                _ => v.push(("C02", "end-reported-but-incomplete".into(), format!("status EndOfOriginalArchiveData but file {:?} is missing or incomplete", drv::short(name)))),
            }
        }
    }
    // C05 (a): undamaged archive
    if n == pr.raw.len() {
        if out.status != Status::EndOfData {
            v.push(("C05", "intact-status".into(), format!("intact archive repaired with status {}", out.status.class())));
        }
        for (name, orig) in &pr.expected {
            match out.files.get(name) {
                Some(fr) if fr.data == *orig => {}
                Some(fr) => v.push(("C05", "intact-incomplete".into(), format!("intact archive: file {:?} recovered {} of {} bytes", drv::short(name), fr.data.len(), orig.len()))),
                None => v.push(("C05", "intact-incomplete".into(), format!("intact archive: file {:?} not recovered", drv::short(name)))),
            }
        }
    }
    // C05 (c): lower bound without compression
    if let Some(prefix) = allowed_prefix(pr, k, n, mode) {
        let w = fmt::walk(prefix);
        for (name, f) in &w.files {
            let got = out.files.get(name).map_or(0, |fr| fr.data.len());
            let present = out.files.contains_key(name);
            if got < f.data.len() {
                v.push((
                    "C05",
                    "below-lower-bound".into(),
                    format!("file {:?}: {} bytes present in the usable part of the stream, {} recovered (present: {present})", drv::short(name), f.data.len(), got),
                ));
                break;
            }
        }
    }
    v
}

pub fn run_one(pr: &Prepared, n: usize, mode: Mode, rng: &mut Rng, sched: Sched) -> Result<Result<Outcome, String>, (String, String)> {
    // one case in three repairs into an output archive that already holds an entry
    let used = n % 3 == 1;
    drv::REPAIR_INTO_USED_WRITER.with(|c| c.set(used));
    let r = run_one_inner(pr, n, mode, rng, sched);
    drv::REPAIR_INTO_USED_WRITER.with(|c| c.set(false));
    r
}

fn run_one_inner(pr: &Prepared, n: usize, mode: Mode, rng: &mut Rng, sched: Sched) -> Result<Result<Outcome, String>, (String, String)> {
    guarded(|| {
        let src = drv::ThrottledSrc::new(&pr.raw[..n], sched);
        // what repair writes is bounded by the content of the archive (framing included): 4x + 1 MiB is generous
        let plain: usize = pr.expected.values().map(Vec::len).sum();
        let cap = 4 * (pr.raw.len() + plain) + (1 << 20);
        drv::repair_and_read_capped(src, &pr.sks, mode, rng, cap).map(|(status, files)| Outcome { status, files })
    })
}

/// Sweep one case. `report` selects which property's clauses are verdict-bearing here.
pub fn run_case(ctx: &mut Ctx, c: &Case, me: &str) {
    let k = ctx.k;
    let p = &c.prog;
    let pr = match guarded(|| prepare_case(c, &k)) {
        Ok(Ok(pr)) => pr,
        Ok(Err(e)) => {
            // C01/C06 territory; nothing to sweep
            ctx.count("prepare_failed");
            ctx.violation("C01", "sweep-prepare-failed", json!({"case": {"prog": p}, "k": k.name()}), json!({"message": e}));
            return;
        }
        Err((loc, msg)) => {
            ctx.count("prepare_panicked");
            ctx.violation("C01", &format!("panic:{loc}"), json!({"case": {"prog": p}, "k": k.name()}), json!({"panic": msg}));
            return;
        }
    };
    let all = if let Some(e) = &pr.model_rejects {
        ctx.count("prepare_failed");
        ctx.violation("C01", "sweep-prepare-failed", json!({"case": {"prog": p}, "k": k.name()}), json!({"message": format!("model cannot decode the archive: {e}")}));
        vec![pr.raw.len()]
    } else {
        cut_list(&pr, &c.cuts)
    };
    let (si, sn) = c.seg;
    let per = all.len().div_ceil(sn.max(1));
    let lo = (si * per).saturating_sub(1); // overlap by one cut for monotonicity across segments
    let hi = ((si + 1) * per).min(all.len());
    if lo >= hi {
        return;
    }
    let cuts = &all[lo..hi];
    let modes: &[Mode] = if pr.encrypted { &[Mode::Auth, Mode::Unauth] } else { &[Mode::Auth] };
    let mut rng = Rng::derive(ctx.seed, &[0x5EE9, p.fingerprint(), si as u64]);
    let exhaustive = matches!(c.cuts, CutSel::All);
    ctx.count(&format!("archives:layers{}", p.layers));
    if exhaustive {
        ctx.count("segments_exhaustive");
    }
    ctx.sample(|| json!({"prog": p, "archive_len": pr.raw.len(), "cuts_in_segment": cuts.len(), "first_cuts": cuts.iter().take(5).collect::<Vec<_>>()}));
    for &mode in modes {
        // running maximum of recovered length per file (monotonicity)
        let mut best: BTreeMap<String, (usize, usize)> = BTreeMap::new();
        for &n in cuts {
            if !ctx.time_left() {
                return;
            }
            let reg = region_class(&pr, n);
            let nontrivial = n > pr.header_len && n < pr.raw.len();
            ctx.eval(model::prng::fnv_mix(p.fingerprint(), (n as u64) << 1 | (mode == Mode::Auth) as u64), nontrivial);
            // must-hit classes
            if pr.encrypted && n > pr.header_len {
                let m = (n - pr.header_len) as u64;
                let rem = m % k.chunk_tag();
                let body = (pr.raw.len() - pr.header_len) as u64;
                let last_start = (body / k.chunk_tag()) * k.chunk_tag();
                if rem == 0 {
                    ctx.count("musthit:cut_at_chunk_edge");
                }
                if (1..16).contains(&rem) {
                    ctx.count("musthit:final_chunk_shorter_than_tag");
                }
                if rem > k.chunk || (m > last_start && m < body && body - m < 16) {
                    ctx.count("musthit:cut_inside_tag");
                }
            }
            if reg == "end_marker" {
                ctx.count("musthit:cut_at_end_marker");
            }
            if reg == "footer" || reg == "sizes_footer" {
                ctx.count("musthit:cut_inside_footer");
            }
            // the archive source may hand over fewer bytes than asked (pipe, socket ...): what is
            // recovered from the same bytes must not depend on it, so the clauses are judged as is
            let sched = match (n as u64).wrapping_add(p.seed) % 5 {
                0 => Sched::Max(65536),
                1 => Sched::Rand(70000, n as u64 ^ p.seed),
                2 if n <= 400_000 => Sched::Cycle(7),
                3 => Sched::Max(4095),
                _ => Sched::All,
            };
            if n % 3 == 1 {
                ctx.count("repair_into_output_archive_that_already_holds_an_entry");
            }
            ctx.count(&format!("source_schedule:{}", match &sched { Sched::All => "whole", Sched::Max(_) => "max", Sched::Rand(..) => "rand", Sched::Cycle(_) => "cycle", _ => "other" }));
            let res = run_one(&pr, n, mode, &mut rng, sched);
            let scen = |cuts: Vec<usize>| {
                let l: Vec<CutAt> = cuts.iter().map(|n| describe_cut(&pr, *n)).collect();
                json!({"case": {"prog": p, "cuts": CutSel::List(l), "seg": (0, 1)}, "k": k.name(), "facts": xlate::facts(p, &k), "concrete_cuts": cuts, "mode": mode})
            };
            let modes_s = if mode == Mode::Auth { "auth" } else { "unauth" };
            match res {
                Err((loc, msg)) => {
                    ctx.count(&format!("outcome:{reg}:{modes_s}:panic"));
                    // C02 says "terminates without crashing"
                    ctx.violation("C02", &format!("panic:{loc}:{}:{reg}:{modes_s}", crate::ctx::msg_class(&msg)), scen(vec![n]), json!({"panic": msg, "at": loc, "cut": n, "archive_len": pr.raw.len()}));
                }
                Ok(res) => {
                    let oc = match &res {
                        Err(e) if e.starts_with("failsafe open") => "refused".to_string(),
                        Err(_) => "error".to_string(),
                        Ok(o) => {
                            let complete = o.files.iter().filter(|(nm, fr)| pr.expected.get(*nm).is_some_and(|e| *e == fr.data)).count();
                            format!("repaired:{}", if complete == pr.expected.len() { "all" } else if complete > 0 { "some" } else { "none" })
                        }
                    };
                    ctx.count(&format!("outcome:{reg}:{modes_s}:{oc}"));
                    for (prop, clause, msg) in judge(&pr, &k, n, mode, &res) {
                        let sig = format!("{clause}:layers{}:{reg}:{modes_s}", p.layers);
                        ctx.violation(prop, &sig, scen(vec![n]), json!({"message": msg, "cut": n, "archive_len": pr.raw.len(), "status": res.as_ref().ok().map(|o| o.status.class())}));
                    }
                    // C05 (b): monotone in the prefix length
                    if let Ok(o) = &res {
                        ctx.count("monotonicity_comparisons");
                        for (name, _) in &pr.expected {
                            let got = o.files.get(name).map_or(0, |fr| fr.data.len());
                            let e = best.entry(name.clone()).or_insert((0, 0));
                            if got < e.0 {
                                let sig = format!("not-monotone:layers{}:{reg}:{modes_s}", p.layers);
                                ctx.violation("C05", &sig, scen(vec![e.1, n]), json!({"message": format!("file {:?}: {} bytes recovered from the first {} bytes, only {} from the first {}", drv::short(name), e.0, e.1, got, n), "archive_len": pr.raw.len()}));
                            } else if got > e.0 {
                                *e = (got, n);
                            }
                        }
                    } else if n >= pr.header_len {
                        // an error where an earlier prefix gave data is also a loss
                        if let Some((name, e)) = best.iter().find(|(_, e)| e.0 > 0) {
                            let sig = format!("not-monotone:layers{}:{reg}:{modes_s}", p.layers);
                            ctx.violation("C05", &sig, scen(vec![e.1, n]), json!({"message": format!("file {:?}: {} bytes recovered from the first {} bytes, repair fails on the first {}", drv::short(name), e.0, e.1, n)}));
                        }
                    }
                }
            }
        }
    }
    let _ = me;
}

pub fn replay(ctx: &mut Ctx, scenario: &Value, me: &str) -> Result<(), String> {
    let c: Case = serde_json::from_value(scenario["case"].clone()).map_err(|e| e.to_string())?;
    let from = scenario["k"].as_str().and_then(K::by_name).unwrap_or(ctx.k);
    if from == ctx.k {
        run_case(ctx, &c, me);
        return Ok(());
    }
    let facts: Vec<xlate::Fact> = serde_json::from_value(scenario["facts"].clone()).unwrap_or_default();
    for v in xlate::variants(&c.prog, &facts, &from, &ctx.k).into_iter().take(6) {
        if v.total_bytes(&ctx.k) > 48 << 20 {
            continue;
        }
        // around the translated cut: a small window (compressed layouts are data dependent)
        run_case(ctx, &Case { prog: v.clone(), ..c.clone() }, me);
    }
    Ok(())
}
