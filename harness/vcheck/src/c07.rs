//! C07 — confidentiality: fresh secrets per archive, no plaintext, recipients only.
use crate::ctx::{guarded, Ctx};
use crate::drv::{self, Sched};
use model::consts::Sz;
use model::fmt;
use model::prng::Rng;
use model::prog::*;
use serde::{Deserialize, Serialize};
use serde_json::{json, Value};
use std::collections::{HashMap, HashSet};
use std::io::Cursor;

#[derive(Clone, Debug, Serialize, Deserialize)]
pub enum Case {
    /// build `n` archives with identical inputs in this process and `procs` x `per_proc` in child processes
    Fresh { n: usize, procs: usize, per_proc: usize, layers: u8, nrecip: usize },
    /// search probes of the content and the names in the bytes after the header
    Scan { prog: Program },
    /// which key lists open the archive
    Keys {
        nrecip: usize,
        layers: u8,
        seed: u64,
        /// route through the configuration builder (None: from the seed)
        #[serde(default)]
        route: Option<u8>,
    },
}

fn fixed_program(layers: u8, nrecip: usize) -> Program {
    let mut p = single_file(layers, 5, Sz::lit(100), DataKind::Text, 0xF1ED);
    p.nrecip = nrecip;
    p
}

/// one archive: (symmetric key, archive nonce, ephemeral public key, wrapped keys)
fn secrets_of_one(p: &Program, k: &model::consts::K, route: u8) -> Result<(String, String, String, Vec<String>), String> {
    // identical inputs, the configuration being built through one of the equivalent routes
    drv::CONFIG_PATH.with(|c| c.set(Some(route)));
    let b = drv::build(p, k, Sched::All);
    drv::CONFIG_PATH.with(|c| c.set(None));
    let b = b?;
    let h = fmt::dec_header(&b.raw)?;
    let e = h.enc.ok_or("no encryption header")?;
    Ok((
        hex::encode(b.key.ok_or("no key")?),
        hex::encode(b.nonce.ok_or("no nonce")?),
        hex::encode(e.eph_pub),
        e.wrapped.iter().map(|(k, t)| format!("{}{}", hex::encode(k), hex::encode(t))).collect(),
    ))
}

type Secrets = (String, String, String, Vec<String>);

unsafe extern "C" {
    fn fork() -> i32;
    fn pipe(fds: *mut i32) -> i32;
    fn read(fd: i32, buf: *mut u8, n: usize) -> isize;
    fn write(fd: i32, buf: *const u8, n: usize) -> isize;
    fn close(fd: i32) -> i32;
    fn waitpid(pid: i32, status: *mut i32, options: i32) -> i32;
    fn _exit(code: i32) -> !;
}

/// fork without exec; the child creates one archive and reports its secrets through a pipe (raw
/// write, no stdio lock), the parent creates one too. None when fork / pipe are not available.
fn forked_pair(p: &Program, k: &model::consts::K) -> Option<(Secrets, Secrets)> {
    let mut fds = [0i32; 2];
    if unsafe { pipe(fds.as_mut_ptr()) } != 0 {
        return None;
    }
    let pid = unsafe { fork() };
    if pid < 0 {
        return None;
    }
    if pid == 0 {
        let line = match secrets_of_one(p, k, 0) {
            Ok((a, b, c, d)) => json!({"key": a, "nonce": b, "eph": c, "wrapped": d}).to_string(),
            Err(e) => json!({"error": e}).to_string(),
        };
        unsafe {
            write(fds[1], line.as_ptr(), line.len());
            _exit(0);
        }
    }
    unsafe { close(fds[1]) };
    let mine = secrets_of_one(p, k, 0).ok();
    let mut buf = vec![0u8; 65536];
    let mut got = Vec::new();
    loop {
        let n = unsafe { read(fds[0], buf.as_mut_ptr(), buf.len()) };
        if n <= 0 {
            break;
        }
        got.extend_from_slice(&buf[..n as usize]);
    }
    unsafe {
        close(fds[0]);
        let mut st = 0i32;
        waitpid(pid, &mut st, 0);
    }
    let v: Value = serde_json::from_slice(&got).ok()?;
    let theirs = (v["key"].as_str()?.to_string(), v["nonce"].as_str()?.to_string(), v["eph"].as_str()?.to_string(), v["wrapped"].as_array()?.iter().filter_map(|x| x.as_str().map(String::from)).collect());
    Some((mine?, theirs))
}

/// entry point of the child processes: prints one JSON line per archive
pub fn child(args: &[String]) {
    let count: usize = args.iter().position(|a| a == "--count").and_then(|i| args.get(i + 1)).and_then(|s| s.parse().ok()).unwrap_or(1);
    let layers: u8 = args.iter().position(|a| a == "--layers").and_then(|i| args.get(i + 1)).and_then(|s| s.parse().ok()).unwrap_or(1);
    let nrecip: usize = args.iter().position(|a| a == "--nrecip").and_then(|i| args.get(i + 1)).and_then(|s| s.parse().ok()).unwrap_or(1);
    let k = drv::compiled_k();
    let p = fixed_program(layers, nrecip);
    for i in 0..count {
        match secrets_of_one(&p, &k, (i % drv::CONFIG_PATHS as usize) as u8) {
            Ok((key, nonce, eph, wrapped)) => println!("{}", json!({"key": key, "nonce": nonce, "eph": eph, "wrapped": wrapped})),
            Err(e) => println!("{}", json!({"error": e})),
        }
    }
}

pub fn cases(ctx: &Ctx) -> Vec<Case> {
    let k = ctx.k;
    let mut rng = Rng::derive(ctx.seed, &[0xC07]);
    let mut v = Vec::new();
    if k.is_prod() {
        let (n, procs, per) = if ctx.quick() { (600, 16, 12) } else { (30000, 128, 120) };
        for layers in [1u8, 3] {
            for nrecip in [1usize, 3] {
                v.push(Case::Fresh { n, procs, per_proc: per, layers, nrecip });
            }
        }
        let mut sets: Vec<usize> = (1..=6).collect();
        sets.extend([16, 84, 85, 86, 128]);
        if !ctx.quick() {
            sets.extend([300, 1000]);
        }
        for nrecip in sets {
            for layers in [1u8, 3] {
                v.push(Case::Keys { nrecip, layers, seed: rng.next(), route: None });
                if (2..=6).contains(&nrecip) || nrecip == 85 {
                    // the same with the recipients registered one call at a time
                    v.push(Case::Keys { nrecip, layers, seed: rng.next(), route: Some(7) });
                }
            }
        }
    }
    // scans: every append size class, flushes in between, both encrypted combos
    let nscan = match (k.is_prod(), ctx.quick()) {
        (true, true) => 500,
        (true, false) => 30000,
        (false, true) => 600,
        (false, false) => 40000,
    };
    let mut sizes = vec![Sz::lit(1), Sz::lit(2), Sz::lit(15), Sz::lit(16), Sz::lit(17), Sz::lit(24), Sz::lit(100), Sz::lit(4095), Sz::lit(4096), Sz::lit(4097), Sz::new(0, 1, -1), Sz::new(0, 1, 0), Sz::new(0, 1, 1)];
    if !k.is_prod() {
        sizes.extend([Sz::lit(31), Sz::lit(32), Sz::lit(33), Sz::new(1, 0, 1)]);
    }
    for i in 0..nscan {
        let layers = if i % 2 == 0 { 1 } else { 3 };
        let nfiles = 1 + rng.usize_below(4);
        let level = *rng.pick(&[0u32, 1, 5]);
        let mut p = random_program(&mut rng, layers, level, nfiles, 5, &sizes, true);
        for (f, fs) in p.files.iter_mut().enumerate() {
            // unique high-entropy names and contents
            fs.name = NameKind::Lit(format!("secret-name-{:016x}-{f}", rng.next()));
            fs.data = if layers == 3 { DataKind::Random } else { *rng.pick(&[DataKind::Marker, DataKind::Random]) };
        }
        v.push(Case::Scan { prog: p });
    }
    // one scan per single size class (a write path that lets one piece size through is seen)
    for layers in [1u8, 3] {
        for s in &sizes {
            let mut p = single_file(layers, 1, *s, DataKind::Random, rng.next());
            p.files[0].name = NameKind::Lit(format!("secret-name-{:016x}", rng.next()));
            // many pieces of that size so that the probes (24 bytes) span piece edges too
            p.ops = vec![Op::Start(0)];
            for _ in 0..40 {
                p.ops.push(Op::Append(0, *s));
            }
            p.ops.extend([Op::End(0), Op::Finalize]);
            if p.total_bytes(&k) <= 8 << 20 {
                v.push(Case::Scan { prog: p });
            }
        }
    }
    v
}

fn find_probes(hay: &[u8], probes: &[Vec<u8>]) -> Option<usize> {
    // index by the first 8 bytes
    let mut idx: HashMap<[u8; 8], Vec<usize>> = HashMap::new();
    for (i, p) in probes.iter().enumerate() {
        if p.len() >= 8 {
            idx.entry(p[..8].try_into().unwrap()).or_default().push(i);
        }
    }
    if hay.len() < 8 {
        return None;
    }
    for o in 0..=hay.len() - 8 {
        let key: [u8; 8] = hay[o..o + 8].try_into().unwrap();
        if let Some(list) = idx.get(&key) {
            for &pi in list {
                let p = &probes[pi];
                if o + p.len() <= hay.len() && hay[o..o + p.len()] == p[..] {
                    return Some(pi);
                }
            }
        }
    }
    None
}

pub fn run_case(ctx: &mut Ctx, c: &Case) {
    let k = ctx.k;
    let scen = || json!({"case": c, "k": k.name()});
    match c {
        Case::Fresh { n, procs, per_proc, layers, nrecip } => {
            ctx.eval(model::prng::fnv(format!("{c:?}").as_bytes()), true);
            let p = fixed_program(*layers, *nrecip);
            let mut keys = Vec::new();
            let mut nonces = Vec::new();
            let mut ephs = Vec::new();
            let mut wrapped_all: Vec<String> = Vec::new();
            let mut same_wrapped_within = 0usize;
            let mut add = |key: String, nonce: String, eph: String, wrapped: Vec<String>| {
                let set: HashSet<&String> = wrapped.iter().collect();
                if set.len() != wrapped.len() {
                    same_wrapped_within += 1;
                }
                keys.push(key);
                nonces.push(nonce);
                ephs.push(eph);
                wrapped_all.extend(wrapped);
            };
            for i in 0..*n {
                ctx.count(&format!("config_route:{}", i % drv::CONFIG_PATHS as usize));
                match guarded(|| secrets_of_one(&p, &k, (i % drv::CONFIG_PATHS as usize) as u8)) {
                    Ok(Ok((a, b, c2, d))) => add(a, b, c2, d),
                    Ok(Err(e)) => {
                        ctx.violation("C01", "c07-build-failed", scen(), json!({"error": e}));
                        return;
                    }
                    Err((loc, msg)) => {
                        ctx.violation("C01", &format!("panic:{loc}"), scen(), json!({"panic": msg}));
                        return;
                    }
                }
            }
            ctx.add("archives_in_process", *n as u64);
            // child processes, identical inputs
            let exe = std::env::current_exe().expect("current_exe");
            let children: Vec<_> = (0..*procs)
                .map(|_| {
                    std::process::Command::new(&exe)
                        .args(["c07child", "--count", &per_proc.to_string(), "--layers", &layers.to_string(), "--nrecip", &nrecip.to_string()])
                        .stdout(std::process::Stdio::piped())
                        .stderr(std::process::Stdio::null())
                        .spawn()
                })
                .collect();
            let mut child_archives = 0u64;
            for ch in children {
                let Ok(ch) = ch else { continue };
                let Ok(out) = ch.wait_with_output() else { continue };
                for line in String::from_utf8_lossy(&out.stdout).lines() {
                    if let Ok(v) = serde_json::from_str::<Value>(line) {
                        if let (Some(a), Some(b), Some(c2)) = (v["key"].as_str(), v["nonce"].as_str(), v["eph"].as_str()) {
                            let w = v["wrapped"].as_array().map(|a| a.iter().filter_map(|x| x.as_str().map(String::from)).collect()).unwrap_or_default();
                            add(a.to_string(), b.to_string(), c2.to_string(), w);
                            child_archives += 1;
                        }
                    }
                }
            }
            // a process forked (no exec) after this thread has already created archives: parent and child
            // each create one more; whatever generator state the library keeps is shared at that point
            if let Some((parent_one, child_one)) = forked_pair(&p, &k) {
                ctx.count("musthit:archives_created_on_both_sides_of_a_fork");
                for (what, a, b2) in [("symmetric-key", &parent_one.0, &child_one.0), ("archive-nonce", &parent_one.1, &child_one.1), ("ephemeral-public-key", &parent_one.2, &child_one.2)] {
                    if a == b2 {
                        ctx.violation("C07", &format!("repeated-{what}-across-fork:layers{layers}"), scen(), json!({"value_prefix": &a[..a.len().min(16)]}));
                    }
                }
                add(child_one.0, child_one.1, child_one.2, child_one.3);
                add(parent_one.0, parent_one.1, parent_one.2, parent_one.3);
            }
            ctx.add("archives_in_child_processes", child_archives);
            ctx.add("child_processes", *procs as u64);
            if child_archives > 0 {
                ctx.count("musthit:cross_process_archives");
            }
            let total = keys.len();
            ctx.sample(|| json!({"fresh": {"archives": total, "layers": layers, "nrecip": nrecip, "first_key_prefix": &keys[0][..8], "first_nonce": &nonces[0]}}));
            for (what, list) in [("symmetric-key", &keys), ("archive-nonce", &nonces), ("ephemeral-public-key", &ephs), ("wrapped-key", &wrapped_all)] {
                let set: HashSet<&String> = list.iter().collect();
                ctx.add(&format!("secrets_collected:{what}"), list.len() as u64);
                ctx.add(&format!("secrets_distinct:{what}"), set.len() as u64);
                if set.len() != list.len() {
                    ctx.violation("C07", &format!("repeated-{what}:layers{layers}"), scen(), json!({"collected": list.len(), "distinct": set.len()}));
                }
                // cheap sanity: no bit position constant over the pool
                if list.len() >= 64 {
                    let bytes: Vec<Vec<u8>> = list.iter().filter_map(|h| hex::decode(h).ok()).collect();
                    let len = bytes[0].len();
                    let mut and = vec![0xffu8; len];
                    let mut or = vec![0u8; len];
                    for b in &bytes {
                        for i in 0..len.min(b.len()) {
                            and[i] &= b[i];
                            or[i] |= b[i];
                        }
                    }
                    // (the top bit of an X25519 public key is always 0)
                    let skip_last = what == "ephemeral-public-key";
                    let constant: usize = (0..len).map(|i| ((and[i] | !or[i]) as u32).count_ones() as usize).sum::<usize>() - usize::from(skip_last);
                    if constant > 0 {
                        ctx.violation("C07", &format!("constant-bits-in-{what}"), scen(), json!({"constant_bit_positions": constant, "pool": list.len()}));
                    }
                }
            }
            if same_wrapped_within > 0 {
                ctx.violation("C07", "same-wrapped-key-for-two-recipients", scen(), json!({"archives": same_wrapped_within}));
            }
        }
        Case::Scan { prog: p } => {
            ctx.eval(p.fingerprint(), true);
            let r = guarded(|| -> Result<(usize, usize, Option<String>), String> {
                let b = drv::build(p, &k, Sched::All)?;
                let h = fmt::dec_header(&b.raw)?;
                let body = &b.raw[h.len..];
                let mut probes: Vec<Vec<u8>> = Vec::new();
                let mut labels: Vec<String> = Vec::new();
                for (name, data) in &b.expected {
                    probes.push(name.as_bytes().to_vec());
                    labels.push(format!("name {name}"));
                    let mut o = 0;
                    while o + 24 <= data.len() {
                        let w = &data[o..o + 24];
                        let distinct: HashSet<&u8> = w.iter().collect();
                        if distinct.len() >= 12 {
                            probes.push(w.to_vec());
                            labels.push(format!("content of {name} at {o}"));
                        }
                        o += 61;
                    }
                }
                let hit = find_probes(body, &probes).map(|i| labels[i].clone());
                Ok((probes.len(), body.len(), hit))
            });
            match r {
                Ok(Ok((np, nb, None))) => {
                    ctx.add("probes_searched", np as u64);
                    ctx.add("bytes_scanned", nb as u64);
                    ctx.count(&format!("scan:layers{}", p.layers));
                    ctx.sample(|| json!({"scan": {"prog": p, "probes": np, "bytes": nb}}));
                }
                Ok(Ok((_, _, Some(what)))) => {
                    ctx.violation("C07", &format!("plaintext-in-archive:layers{}", p.layers), scen(), json!({"found_in_clear": what}));
                }
                Ok(Err(e)) => ctx.violation("C01", "c07-build-failed", scen(), json!({"error": e})),
                Err((loc, msg)) => ctx.violation("C01", &format!("panic:{loc}"), scen(), json!({"panic": msg})),
            }
        }
        Case::Keys { nrecip, layers, seed, route } => {
            ctx.eval(*seed, true);
            let mut p = single_file(*layers, 5, Sz::lit(300), DataKind::Random, *seed);
            p.nrecip = *nrecip;
            drv::CONFIG_PATH.with(|c| c.set(*route));
            let built = guarded(|| drv::build(&p, &k, Sched::All));
            drv::CONFIG_PATH.with(|c| c.set(None));
            if route == &Some(7) {
                ctx.count("recipients_registered_one_call_at_a_time");
            }
            let Ok(Ok(b)) = built else {
                ctx.violation("C01", "c07-build-failed", scen(), json!({}));
                return;
            };
            let wrong: Vec<[u8; 32]> = (0..4).map(|i| secret_key(*seed ^ 0xBAD5EED, 50 + i)).collect();
            let mut rng = Rng::new(*seed);
            let try_open = |keys: &[[u8; 32]], rng: &mut Rng| -> Result<bool, (String, String)> {
                guarded(|| match drv::read_all_from(Cursor::new(&b.raw[..]), keys, rng) {
                    Ok(got) => drv::compare_maps(&b.expected, &got).is_ok(),
                    Err(_) => false,
                })
            };
            // right key at every position among wrong keys
            // (large sets: a sample of the recipients, the ends included)
            let mut who: Vec<usize> = if *nrecip <= 8 { (0..*nrecip).collect() } else { vec![0, 1, *nrecip / 2, 83, 84, 85, *nrecip - 2, *nrecip - 1] };
            who.retain(|r| r < nrecip);
            who.dedup();
            ctx.count(&format!("recipients:{}", match *nrecip { 1 => "1", 2..=6 => "2-6", 7..=84 => "7-84", _ => "85+" }));
            for r in who {
                for pos in (0..=3usize).filter(|pos| *nrecip <= 8 || *pos == 0 || *pos == 3) {
                    let mut list: Vec<[u8; 32]> = wrong[..3].to_vec();
                    list.insert(pos, b.sks[r]);
                    ctx.count(&format!("keylist:recipient_at_position_{pos}"));
                    match try_open(&list, &mut rng) {
                        Ok(true) => ctx.count("keylist:opened_by_recipient"),
                        Ok(false) => ctx.violation("C07", &format!("recipient-cannot-open:position{pos}:layers{layers}"), scen(), json!({"recipient": r, "of": nrecip, "position": pos})),
                        Err((loc, msg)) => ctx.violation("C08", &format!("panic:{loc}"), scen(), json!({"panic": msg})),
                    }
                }
                // alone
                match try_open(&[b.sks[r]], &mut rng) {
                    Ok(true) => ctx.count("keylist:opened_by_recipient"),
                    Ok(false) => ctx.violation("C07", &format!("recipient-cannot-open:alone:layers{layers}"), scen(), json!({"recipient": r, "of": nrecip})),
                    Err((loc, msg)) => ctx.violation("C08", &format!("panic:{loc}"), scen(), json!({"panic": msg})),
                }
            }
            // only wrong keys, no key
            for (label, list) in [("wrong_keys", wrong.clone()), ("one_wrong_key", wrong[..1].to_vec()), ("no_key", vec![])] {
                ctx.count(&format!("keylist:{label}"));
                match try_open(&list, &mut rng) {
                    Ok(false) => ctx.count("keylist:refused_for_non_recipient"),
                    Ok(true) => ctx.violation("C07", &format!("opened-without-recipient-key:{label}:layers{layers}"), scen(), json!({"keys": label})),
                    Err((loc, msg)) => ctx.violation("C08", &format!("panic:{loc}"), scen(), json!({"panic": msg})),
                }
            }
        }
    }
}

pub fn run(ctx: &mut Ctx) {
    let cs = cases(ctx);
    for (i, c) in cs.iter().enumerate() {
        if !ctx.mine(i as u64) {
            continue;
        }
        if !ctx.time_left() {
            break;
        }
        if ctx.journal(&json!({"prop": "C07", "scenario": {"case": c, "k": ctx.k.name()}})) {
            run_case(ctx, c);
        }
    }
}

pub fn replay(ctx: &mut Ctx, scenario: &Value) -> Result<(), String> {
    let c: Case = serde_json::from_value(scenario["case"].clone()).map_err(|e| e.to_string())?;
    run_case(ctx, &c);
    Ok(())
}
