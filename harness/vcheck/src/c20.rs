//! C20 — the C interface produces and extracts the same archives as the Rust interface.
//! A C driver (harness/capi/drv.c), compiled with ASan+UBSan and linked against the
//! static library built from the tree, interprets generated programs; the Rust side
//! reads what it produced / checks what it extracted. A subset also runs under valgrind.
use crate::c18::{pem, PUB_X};
use crate::ctx::Ctx;
use crate::drv::{self, Sched};
use model::consts::Sz;
use model::prng::Rng;
use model::prog::*;
use serde::{Deserialize, Serialize};
use serde_json::{json, Value};
use std::collections::BTreeMap;
use std::io::Write;
use std::path::{Path, PathBuf};
use std::process::{Command, Stdio};

#[derive(Clone, Debug, Serialize, Deserialize)]
pub enum Case {
    /// archive creation through the C entry points
    Create { prog: Program, sched: Vec<u32>, fail_write_at: i64, fail_flush_at: i64, valgrind: bool },
    /// extraction of a library-written archive through the C entry points
    Extract { prog: Program, sched: Vec<u32>, fail_file_at: i64, fail_fw_at: i64, valgrind: bool },
    /// one call with a null / cleared handle or a null callback
    NullCall { which: String, after_close: bool },
}

/// same generator as `gen()` in drv.c
pub fn cgen(len: usize, mut seed: u64) -> Vec<u8> {
    let mut v = Vec::with_capacity(len);
    for _ in 0..len {
        seed = seed.wrapping_add(0x9E37_79B9_7F4A_7C15);
        let mut z = seed;
        z = (z ^ (z >> 30)).wrapping_mul(0xBF58_476D_1CE4_E5B9);
        z = (z ^ (z >> 27)).wrapping_mul(0x94D0_49BB_1331_11EB);
        v.push(((z ^ (z >> 31)) & 0xff) as u8);
    }
    v
}

const NULL_CALLS: &[&str] = &[
    "file_new_null_archive", "file_new_null_name", "file_new_null_out", "append_null_archive", "append_null_file", "append_null_buffer", "flush_null",
    "file_close_null_archive", "file_close_null_ptr", "file_close_cleared", "close_null_ptr", "close_cleared", "extract_null_cfg", "extract_cleared_cfg",
    "extract_null_read", "info_null_out", "info_null_read", "reader_cfg_null",
];
const AFTER_CLOSE_CALLS: &[&str] = &["append_after_close", "file_new_after_close", "flush_after_close", "close_twice"];
const ARCH_NEW_VARIANTS: &[&str] = &["null_cfg", "cleared_cfg", "null_write", "null_flush", "null_out"];

pub fn cases(ctx: &Ctx) -> Vec<Case> {
    let mut v = Vec::new();
    if !ctx.k.is_prod() {
        return v;
    }
    let mut rng = Rng::derive(ctx.seed, &[0xC20]);
    let n = if ctx.quick() { 480 } else { 8000 };
    let nval = if ctx.quick() { 16 } else { 600 };
    let sizes = [Sz::lit(0), Sz::lit(1), Sz::lit(17), Sz::lit(300), Sz::lit(4096), Sz::lit(4097), Sz::new(0, 1, -17), Sz::new(0, 1, 1)];
    // (u32::MAX in a schedule: the write callback reports an interruption, EINTR, on that call)
    let scheds: Vec<Vec<u32>> = vec![vec![], vec![1], vec![1, 2, 3, 4, 5, 6, 7], vec![4095], vec![100_000, 1], vec![16, 17], vec![u32::MAX, 5, 4095], vec![7, u32::MAX]];
    for i in 0..n {
        let layers = LAYER_COMBOS[i % 4];
        let nfiles = 1 + rng.usize_below(4);
        let mut p = random_program(&mut rng, layers, 1, nfiles, 3, &sizes, i % 5 == 0);
        p.nrecip = 1 + rng.usize_below(2);
        // names must be NUL-free C strings; the empty name is legal
        for f in p.files.iter_mut() {
            if matches!(f.name, NameKind::Unicode(_)) && rng.chance(1, 2) {
                f.name = NameKind::Lit(format!("dir/é {}", rng.below(1000)));
            }
        }
        let mut sched = rng.pick(&scheds).clone();
        if p.total_bytes(&ctx.k) > 200_000 && sched == vec![1] {
            sched = vec![4095];
        }
        let fw = if i % 7 == 3 { 1 + rng.range(0, 12) } else { -1 };
        let ff = if i % 11 == 5 { 1 + rng.range(0, 3) } else { -1 };
        v.push(Case::Create { prog: p.clone(), sched: sched.clone(), fail_write_at: fw, fail_flush_at: ff, valgrind: i < nval });
        if i % 2 == 0 {
            let ffa = if i % 6 == 2 { 1 + rng.range(0, 3) } else { -1 };
            let fwa = if i % 10 == 4 { 1 + rng.range(0, 6) } else { -1 };
            v.push(Case::Extract { prog: p, sched, fail_file_at: ffa, fail_fw_at: fwa, valgrind: i < nval });
        }
    }
    for w in NULL_CALLS {
        v.push(Case::NullCall { which: w.to_string(), after_close: false });
    }
    for w in AFTER_CLOSE_CALLS {
        v.push(Case::NullCall { which: w.to_string(), after_close: true });
    }
    for w in ARCH_NEW_VARIANTS {
        v.push(Case::NullCall { which: format!("arch_new:{w}"), after_close: false });
    }
    v.push(Case::NullCall { which: "cfg_null_calls".into(), after_close: false });
    v
}

struct Run {
    lines: Vec<String>,
    exit: Option<i32>,
    stderr: String,
}

fn driver(valgrind: bool) -> (PathBuf, Vec<String>) {
    let t = std::env::var("VERIF_C20_DIR").unwrap_or_else(|_| "/verif/target".into());
    if valgrind {
        (PathBuf::from("valgrind"), vec!["-q".into(), "--error-exitcode=97".into(), "--leak-check=no".into(), format!("{t}/c20drv")])
    } else {
        (PathBuf::from(format!("{t}/c20drv_asan")), vec![])
    }
}

fn run_driver(dir: &Path, program: &str, valgrind: bool) -> Run {
    let (exe, pre) = driver(valgrind);
    let mut ch = Command::new(&exe)
        .args(&pre)
        .current_dir(dir)
        .env("ASAN_OPTIONS", "abort_on_error=0:halt_on_error=1:detect_leaks=0:exitcode=98")
        .env("UBSAN_OPTIONS", "halt_on_error=1:exitcode=99:print_stacktrace=1")
        .stdin(Stdio::piped())
        .stdout(Stdio::piped())
        .stderr(Stdio::piped())
        .spawn()
        .unwrap_or_else(|e| {
            eprintln!("HARNESS-ERROR cannot start the C driver {exe:?}: {e}");
            std::process::exit(2);
        });
    ch.stdin.take().unwrap().write_all(program.as_bytes()).ok();
    let out = ch.wait_with_output().expect("driver");
    Run {
        lines: String::from_utf8_lossy(&out.stdout).lines().map(String::from).collect(),
        exit: out.status.code(),
        stderr: String::from_utf8_lossy(&out.stderr).chars().take(1500).collect(),
    }
}

fn statuses(r: &Run) -> Vec<(String, u64)> {
    r.lines
        .iter()
        .filter_map(|l| {
            let mut it = l.split(' ');
            if it.next() != Some("status") {
                return None;
            }
            Some((it.next()?.to_string(), it.next()?.parse().ok()?))
        })
        .collect()
}

/// memory error / crash of the driver process
fn crashed(r: &Run) -> Option<String> {
    let finished = r.lines.last().map(String::as_str) == Some("done");
    if r.exit == Some(0) && finished {
        return None;
    }
    let what = if r.stderr.contains("AddressSanitizer") {
        "asan"
    } else if r.stderr.contains("runtime error") {
        "ubsan"
    } else if r.exit == Some(97) {
        "valgrind"
    } else if r.exit.is_none() {
        "signal"
    } else {
        "abnormal-exit"
    };
    Some(what.to_string())
}

fn write_keys(dir: &Path, p: &Program) -> (Vec<[u8; 32]>, String, String) {
    let (sks, _) = drv::recipient_keys(p);
    let mut pubs = String::new();
    for sk in &sks {
        let mut der = PUB_X.to_vec();
        der.extend_from_slice(&crate::c19::x25519_base(sk));
        pubs.push_str(&pem("PUBLIC KEY", &der, 64, "\n", true));
    }
    std::fs::write(dir.join("pub.pem"), &pubs).unwrap();
    let mut der = crate::c18::PRIV_X.to_vec();
    der.extend_from_slice(&sks[0]);
    std::fs::write(dir.join("priv.pem"), pem("PRIVATE KEY", &der, 64, "\n", true)).unwrap();
    (sks, "pub.pem".into(), "priv.pem".into())
}

pub fn run_case(ctx: &mut Ctx, c: &Case) {
    let k = ctx.k;
    let base = PathBuf::from(ctx.out_dir.clone().unwrap_or_else(|| "/verif/scratch".into()));
    let dir = base.join(format!("c20-{}-{}", std::process::id(), ctx.case_index));
    let _ = std::fs::remove_dir_all(&dir);
    std::fs::create_dir_all(&dir).unwrap();
    let scen = || json!({"case": c, "k": "prod"});
    ctx.eval(model::prng::fnv(format!("{c:?}").as_bytes()), true);
    ctx.sample(|| json!({"case": c}));
    match c {
        Case::Create { prog: p, sched, fail_write_at, fail_flush_at, valgrind } => {
            ctx.count(if *valgrind { "create:valgrind" } else { "create:asan" });
            if p.nrecip >= 2 {
                // (the archive is read back with the key of the LAST recipient of the PEM list)
                ctx.count("create:several_recipients_in_one_pem_list");
            }
            if sched.contains(&u32::MAX) {
                ctx.count("create:write_callback_reports_interruptions");
            }
            let (sks, pubf, _) = write_keys(&dir, p);
            // translate the program; data comes from the C-side generator
            // the C API has no layer selection: the default configuration (compress + encrypt) is used
            let mut s = String::from("cfg_new\n");
            s.push_str(&format!("cfg_level {}\n", p.level));
            s.push_str(&format!("cfg_pubkeys {pubf}\n"));
            if !sched.is_empty() {
                s.push_str(&format!("sched {}\n", sched.iter().map(u32::to_string).collect::<Vec<_>>().join(",")));
            }
            s.push_str("arch_new ok\n");
            if *fail_write_at > 0 {
                s.push_str(&format!("fail_write_at {fail_write_at}\n"));
            }
            if *fail_flush_at > 0 {
                s.push_str(&format!("fail_flush_at {fail_flush_at}\n"));
            }
            let mut expected: BTreeMap<String, Vec<u8>> = BTreeMap::new();
            let mut slot_of: BTreeMap<usize, usize> = BTreeMap::new();
            let mut piece = 0u64;
            for op in &p.ops {
                match op {
                    Op::Start(f) | Op::Add(f, _) => {
                        let name = p.files[*f].name.render();
                        let slot = slot_of.len();
                        slot_of.insert(*f, slot);
                        let hexname = if name.is_empty() { "-".to_string() } else { hex::encode(name.as_bytes()) };
                        s.push_str(&format!("file_new {slot} {hexname}\n"));
                        expected.insert(name.clone(), Vec::new());
                        if let Op::Add(_, sz) = op {
                            let n = sz.eval(&k) as usize;
                            piece += 1;
                            let seed = p.seed ^ piece;
                            s.push_str(&format!("append {slot} {n} {seed}\n"));
                            expected.get_mut(&name).unwrap().extend(cgen(n, seed));
                            s.push_str(&format!("file_close {slot}\n"));
                        }
                    }
                    Op::Append(f, sz) => {
                        let n = sz.eval(&k) as usize;
                        piece += 1;
                        let seed = p.seed ^ piece;
                        s.push_str(&format!("append {} {n} {seed}\n", slot_of[f]));
                        expected.get_mut(&p.files[*f].name.render()).unwrap().extend(cgen(n, seed));
                    }
                    Op::End(f) => s.push_str(&format!("file_close {}\n", slot_of[f])),
                    Op::Flush => s.push_str("flush\n"),
                    Op::Finalize => s.push_str("close\n"),
                }
            }
            s.push_str("dump out.mla\n");
            let r = run_driver(&dir, &s, *valgrind);
            if let Some(w) = crashed(&r) {
                ctx.violation("C20", &format!("driver-crash:{w}:create"), scen(), json!({"exit": r.exit, "stderr": r.stderr, "last_lines": r.lines.iter().rev().take(4).collect::<Vec<_>>()}));
            } else {
                let st = statuses(&r);
                let injected = *fail_write_at > 0 || *fail_flush_at > 0;
                let bad: Vec<&(String, u64)> = st.iter().filter(|(_, c)| *c != 0).collect();
                if !injected {
                    if let Some((name, code)) = bad.first() {
                        ctx.violation("C20", &format!("valid-call-failed:{name}"), scen(), json!({"status": code, "call": name}));
                    } else {
                        // the archive must contain exactly what was passed in
                        let raw = std::fs::read(dir.join("out.mla")).unwrap_or_default();
                        let mut rng = Rng::new(p.seed);
                        match drv::read_all(&raw, &sks[sks.len() - 1..], &mut rng).and_then(|got| drv::compare_maps(&expected, &got)) {
                            Ok(()) => ctx.count("held:create_read_back_by_rust_reader"),
                            Err(e) => ctx.violation("C20", &format!("created-archive-differs:{}", e.split(' ').next().unwrap_or("?")), scen(), json!({"message": e, "schedule": sched})),
                        }
                    }
                } else {
                    let reached = r.lines.iter().any(|l| l.starts_with("injected_"));
                    let counts = r.lines.iter().find(|l| l.starts_with("dumped")).cloned().unwrap_or_default();
                    ctx.count("callback_failure_injected");
                    if reached && bad.is_empty() {
                        ctx.violation("C20", "callback-failure-reported-as-success:create", scen(), json!({"counts": counts}));
                    } else if reached {
                        ctx.count("held:callback_failure_gives_error_status");
                    }
                }
            }
        }
        Case::Extract { prog: p, sched, fail_file_at, fail_fw_at, valgrind } => {
            ctx.count(if *valgrind { "extract:valgrind" } else { "extract:asan" });
            let (_, _, privf) = write_keys(&dir, p);
            let Ok(b) = drv::build(p, &k, Sched::All) else {
                ctx.count("build_failed");
                let _ = std::fs::remove_dir_all(&dir);
                return;
            };
            std::fs::write(dir.join("in.mla"), &b.raw).unwrap();
            std::fs::create_dir_all(dir.join("x")).unwrap();
            let mut s = String::new();
            if !sched.is_empty() {
                s.push_str(&format!("sched {}\n", sched.iter().map(u32::to_string).collect::<Vec<_>>().join(",")));
            }
            s.push_str("info in.mla\n");
            let key = if p.layers & 1 != 0 { privf.as_str() } else { "-" };
            // the caller's stream is not always fresh: an info call, or a first extraction that failed for
            // want of a key, may have been made on the same context before
            let pre = model::prng::fnv(format!("{c:?}").as_bytes()) % 3;
            ctx.count(["extract:fresh_context", "extract:after_info_on_the_same_context", "extract:after_a_failed_extraction_on_the_same_context"][pre as usize]);
            s.push_str(&format!("extract in.mla {key} x {fail_file_at} {fail_fw_at} {pre}\n"));
            let r = run_driver(&dir, &s, *valgrind);
            if let Some(w) = crashed(&r) {
                ctx.violation("C20", &format!("driver-crash:{w}:extract"), scen(), json!({"exit": r.exit, "stderr": r.stderr}));
            } else {
                let st = statuses(&r);
                let ex = st.iter().find(|(n, _)| n == "extract").map(|x| x.1);
                let info_ok = r.lines.iter().any(|l| *l == format!("info version 1 layers {}", p.layers));
                if !info_ok {
                    ctx.violation("C20", "info-differs", scen(), json!({"lines": r.lines.iter().take(4).collect::<Vec<_>>()}));
                }
                if !r.lines.iter().any(|l| l.contains("cfg_cleared 1")) {
                    ctx.violation("C20", "config-handle-not-cleared:extract", scen(), json!({}));
                }
                // collect what the caller's writers received
                let mut got: BTreeMap<String, Vec<u8>> = BTreeMap::new();
                for i in 1..=b.expected.len() + 1 {
                    if let (Ok(n), Ok(d)) = (std::fs::read(dir.join(format!("x/{i}.name"))), std::fs::read(dir.join(format!("x/{i}.bin")))) {
                        got.insert(String::from_utf8_lossy(&n).to_string(), d);
                    }
                }
                if r.lines.iter().any(|l| l == "injected_fw_failure") {
                    ctx.count("callback_failure_injected");
                    if ex == Some(0) {
                        ctx.violation("C20", "callback-failure-reported-as-success:extract", scen(), json!({"extract_status": ex}));
                    } else {
                        ctx.count("held:callback_failure_gives_error_status");
                    }
                } else if ex != Some(0) {
                    ctx.violation("C20", "extract-failed", scen(), json!({"status": ex}));
                } else {
                    // a failing file callback skips that file only
                    let mut ok = true;
                    for (name, data) in &got {
                        if b.expected.get(name) != Some(data) {
                            ok = false;
                            ctx.violation("C20", "extracted-bytes-differ", scen(), json!({"file": drv::short(name), "got": data.len(), "expected": b.expected.get(name).map(Vec::len), "schedule": sched}));
                            break;
                        }
                    }
                    let want = if *fail_file_at > 0 && (*fail_file_at as usize) <= b.expected.len() { b.expected.len() - 1 } else { b.expected.len() };
                    if ok && got.len() != want {
                        ctx.violation("C20", "extracted-file-count-differs", scen(), json!({"got": got.len(), "expected": want}));
                    } else if ok {
                        ctx.count("held:extract_hands_exact_bytes");
                    }
                }
            }
        }
        Case::NullCall { which, after_close } => {
            ctx.count("null_or_stale_handle_call");
            let dummy = single_file(3, 1, Sz::lit(3), DataKind::Random, 1);
            let (_, pubf, _) = write_keys(&dir, &dummy);
            let mut s = String::new();
            if let Some(variant) = which.strip_prefix("arch_new:") {
                s.push_str(&format!("cfg_new\ncfg_pubkeys {pubf}\narch_new {variant}\n"));
            } else if which == "cfg_null_calls" {
                s.push_str("cfg_new\ncfg_null_calls\n");
            } else {
                s.push_str(&format!("cfg_new\ncfg_pubkeys {pubf}\narch_new ok\nfile_new 0 61\n"));
                if *after_close {
                    s.push_str("file_close 0\nclose\n");
                }
                s.push_str(&format!("null_call {which}\n"));
            }
            let r = run_driver(&dir, &s, false);
            if let Some(w) = crashed(&r) {
                ctx.violation("C20", &format!("crash-on-invalid-handle:{which}"), scen(), json!({"kind": w, "exit": r.exit, "stderr": r.stderr.chars().take(500).collect::<String>()}));
            } else {
                let st = statuses(&r);
                let target = if which.starts_with("arch_new:") { "arch_new" } else if which == "cfg_null_calls" { "cfg_null_calls" } else { "null_call" };
                let bad_ok = st.iter().filter(|(n, _)| n == target || n.ends_with("_null") || n.ends_with("_nullstr")).all(|(_, c)| *c != 0);
                let seen = st.iter().any(|(n, _)| n == target);
                if !seen || !bad_ok {
                    ctx.violation("C20", &format!("invalid-handle-accepted:{which}"), scen(), json!({"statuses": st}));
                } else {
                    ctx.count("held:invalid_handle_gives_error_status");
                }
            }
        }
    }
    let _ = std::fs::remove_dir_all(&dir);
}

pub fn run(ctx: &mut Ctx) {
    let cs = cases(ctx);
    for (i, c) in cs.iter().enumerate() {
        if !ctx.mine(i as u64) {
            continue;
        }
        if !ctx.time_left() {
            break;
        }
        if ctx.journal(&json!({"prop": "C20", "scenario": {"case": c, "k": "prod"}})) {
            run_case(ctx, c);
        }
    }
}

pub fn replay(ctx: &mut Ctx, scenario: &Value) -> Result<(), String> {
    let c: Case = serde_json::from_value(scenario["case"].clone()).map_err(|e| e.to_string())?;
    run_case(ctx, &c);
    Ok(())
}
