//! C10 — random access: results do not depend on what was read before.
use crate::ctx::{guarded, Ctx};
use crate::drv::{self, Sched};
use crate::xlate;
use model::consts::{Sz, K};
use model::fmt;
use model::prng::Rng;
use model::prog::*;
use serde::{Deserialize, Serialize};
use serde_json::{json, Value};
use std::io::{Cursor, Read};

#[derive(Clone, Debug, Serialize, Deserialize, PartialEq, Eq, Hash)]
pub enum HOp {
    List,
    Hash(usize),
    /// open file i (drops the previous handle)
    Open(usize),
    /// one read with a buffer of this size on the open file
    Read(Sz),
    /// read (buffer sizes from the seed) until the offset reaches the target, never beyond
    ReadUntil(Sz, u64),
    /// read to the end of the file
    ReadAll(u64),
    /// abandon the open file
    Drop,
}

#[derive(Clone, Debug, Serialize, Deserialize)]
pub struct Case {
    pub prog: Program,
    pub histories: Vec<Vec<HOp>>,
}

fn abandon_history(x: usize, t: Sz, next: u8, y: usize, seed: u64) -> Vec<HOp> {
    let mut h = vec![HOp::Open(x), HOp::ReadUntil(t, seed), HOp::Drop];
    match next {
        0 => h.extend([HOp::Open(y), HOp::ReadAll(seed ^ 1)]),
        1 => h.extend([HOp::Open(x), HOp::ReadAll(seed ^ 2)]),
        2 => h.extend([HOp::Hash(x), HOp::Open(x), HOp::ReadAll(seed ^ 3)]),
        3 => h.extend([HOp::Hash(y), HOp::List, HOp::Open(y), HOp::ReadAll(seed ^ 4)]),
        _ => h.extend([HOp::Open(y), HOp::ReadUntil(t, seed ^ 5), HOp::Open(x), HOp::ReadAll(seed ^ 6)]),
    }
    h
}

fn random_history(rng: &mut Rng, nfiles: usize, k: &K, n: usize) -> Vec<HOp> {
    let mut h = Vec::new();
    let bufs = [Sz::lit(0), Sz::lit(1), Sz::lit(2), Sz::lit(3), Sz::lit(7), Sz::lit(4096), Sz::new(0, 1, -1), Sz::new(0, 1, 0), Sz::new(0, 1, 1), Sz::new(1, 0, 1), Sz::new(3, 0, 0)];
    let _ = k;
    let mut open = false;
    for _ in 0..n {
        match rng.below(10) {
            0 => {
                h.push(HOp::List);
            }
            1 => {
                h.push(HOp::Hash(rng.usize_below(nfiles)));
                open = false;
            }
            2 | 3 => {
                h.push(HOp::Open(rng.usize_below(nfiles)));
                open = true;
            }
            4 if open => {
                h.push(HOp::Drop);
                open = false;
            }
            5 if open => {
                h.push(HOp::ReadAll(rng.next()));
            }
            _ => {
                if !open {
                    h.push(HOp::Open(rng.usize_below(nfiles)));
                    open = true;
                }
                h.push(HOp::Read(*rng.pick(&bufs)));
            }
        }
    }
    h
}

fn archive(rng: &mut Rng, k: &K, layers: u8, nfiles: usize, big: bool) -> Program {
    // interleaved files, runs of 1..5 pieces, each file spanning several chunks (and blocks with compression)
    let mut sizes = vec![Sz::lit(1), Sz::lit(100), Sz::new(0, 1, -17), Sz::new(0, 1, 3), Sz::new(0, 2, 0), Sz::lit(0), Sz::new(0, 1, 0)];
    if big {
        sizes.extend([Sz::new(1, 0, -5), Sz::new(0, 9, 1)]);
    }
    let _ = k;
    random_program(rng, layers, 1, nfiles, 5, &sizes, false)
}

pub fn cases(ctx: &Ctx) -> Vec<Case> {
    let k = ctx.k;
    let mut rng = Rng::derive(ctx.seed, &[0xC10]);
    let mut v = Vec::new();
    if !k.is_prod() {
        let narch = if ctx.quick() { 160 } else { 1600 };
        for a in 0..narch {
            let layers = LAYER_COMBOS[a % 4];
            let nfiles = 2 + rng.usize_below(5);
            let p = archive(&mut rng, &k, layers, nfiles, a % 3 == 0);
            let totals = p.totals(&k);
            let mut hs = Vec::new();
            // exhaustive: abandon file x at every offset, then each kind of next operation
            let x = rng.usize_below(nfiles);
            let y = (x + 1 + rng.usize_below(nfiles - 1)) % nfiles;
            let step = if ctx.quick() { 1 + totals[x] / 300 } else { 1 };
            for t in (0..=totals[x]).step_by(step.max(1)) {
                hs.push(abandon_history(x, Sz::from_concrete(t as u64, &k), (t % 5) as u8, y, rng.next()));
            }
            for _ in 0..(if ctx.quick() { 10 } else { 60 }) {
                let n = 5 + rng.usize_below(195);
                hs.push(random_history(&mut rng, nfiles, &k, n));
            }
            v.push(Case { prog: p, histories: hs });
        }
    } else {
        let narch = if ctx.quick() { 80 } else { 1000 };
        for a in 0..narch {
            let layers = LAYER_COMBOS[a % 4];
            let nfiles = 3 + rng.usize_below(if ctx.quick() { 3 } else { 6 });
            let p = archive(&mut rng, &k, layers, nfiles, !ctx.quick() && a % 8 == 0);
            let totals = p.totals(&k);
            let mut hs = Vec::new();
            for _ in 0..(if ctx.quick() { 12 } else { 40 }) {
                let x = rng.usize_below(nfiles);
                let y = (x + 1 + rng.usize_below(nfiles - 1)) % nfiles;
                // abandon offsets: inside a block, at a piece end, on / next to chunk and block edges
                let tx = totals[x] as u64;
                let cands = [0, 1, tx / 2, tx, tx.saturating_sub(1), k.chunk.min(tx), (k.chunk - 17).min(tx), (k.chunk + 1).min(tx), (2 * k.chunk).min(tx), k.block.min(tx), rng.below(tx + 1)];
                let t = *rng.pick(&cands);
                hs.push(abandon_history(x, Sz::from_concrete(t, &k), rng.below(5) as u8, y, rng.next()));
            }
            for _ in 0..(if ctx.quick() { 4 } else { 20 }) {
                let n = 5 + rng.usize_below(if ctx.quick() { 60 } else { 195 });
                hs.push(random_history(&mut rng, nfiles, &k, n));
            }
            v.push(Case { prog: p, histories: hs });
        }
        // steered shape: compressed block 0 ends one byte after an encryption chunk edge, that byte
        // not being needed by the decoder; file 2 runs over the block edge. Abandon around the edge.
        for (layers, grid) in [(3u8, crate::shapes::Grid::Chunk), (2, crate::shapes::Grid::Window)] {
            if let Some(p) = crate::shapes::block_end(&k, ctx.seed, layers, 1, grid, 1, true, false) {
                let lay = layout(&p, &k);
                // offset, within file 2, of the first byte of block 1
                let start2 = lay.points.iter().filter(|pt| pt.kind == "piece_end").nth(2).map_or(0, |pt| pt.pos.saturating_sub(k.block));
                let edge = k.block.saturating_sub(start2);
                let mut hs = Vec::new();
                for d in [-1i64, 0, 1, 4096, -70_000] {
                    let t = (edge as i64 + d).max(0) as u64;
                    for next in 0..5u8 {
                        hs.push(abandon_history(2, Sz::from_concrete(t, &k), next, (next % 2) as usize, rng.next()));
                    }
                }
                hs.push(vec![HOp::Open(2), HOp::ReadAll(7), HOp::Open(0), HOp::ReadAll(8), HOp::Hash(2)]);
                v.push(Case { prog: p, histories: hs });
            }
        }
    }
    v
}

pub fn run_case(ctx: &mut Ctx, c: &Case) {
    let k = ctx.k;
    let p = &c.prog;
    let Ok(Ok(b)) = guarded(|| drv::build(p, &k, Sched::All)) else {
        ctx.count("build_failed");
        return;
    };
    // file index -> (name, reference bytes)
    let mut files: Vec<Option<(String, &Vec<u8>)>> = Vec::new();
    for f in 0..p.files.len() {
        let name = p.files[f].name.render();
        files.push(b.expected.get_key_value(&name).map(|(n, d)| (n.clone(), d)));
    }
    ctx.sample(|| json!({"prog": p, "histories": c.histories.len(), "first_history": c.histories.first().map(|h| h.iter().take(12).collect::<Vec<_>>())}));
    for h in &c.histories {
        if !ctx.time_left() {
            return;
        }
        ctx.eval(model::prng::fnv_mix(p.fingerprint(), model::prng::fnv(format!("{h:?}").as_bytes())), h.len() >= 3);
        ctx.add("operations", h.len() as u64);
        let scen = || json!({"case": {"prog": p, "histories": [h]}, "k": k.name(), "facts": xlate::facts(p, &k)});
        let r = guarded(|| run_history(ctx, &k, &b, &files, h));
        match r {
            Ok(Ok(())) => ctx.count("held"),
            Ok(Err((clause, detail))) => ctx.violation("C10", &format!("{clause}:layers{}", p.layers), scen(), detail),
            Err((loc, msg)) => ctx.violation("C10", &format!("panic:{loc}:layers{}", p.layers), scen(), json!({"panic": msg})),
        }
    }
}

fn run_history(ctx: &mut Ctx, k: &K, b: &drv::Built, files: &[Option<(String, &Vec<u8>)>], h: &[HOp]) -> Result<(), (String, Value)> {
    let mut r = drv::open(Cursor::new(&b.raw[..]), &b.sks).map_err(|e| ("open-failed".to_string(), json!({"error": e})))?;
    let mut i = 0usize;
    // the open handle borrows the reader: process one "open segment" at a time
    while i < h.len() {
        match &h[i] {
            HOp::List => {
                let mut names: Vec<String> = r.list_files().map_err(|e| ("list-failed".to_string(), json!({"step": i, "error": e.to_string()})))?.cloned().collect();
                names.sort();
                let want: Vec<&String> = b.expected.keys().collect();
                if names.iter().collect::<Vec<_>>() != want {
                    return Err(("listing-differs".into(), json!({"step": i})));
                }
                ctx.count("op:list");
                i += 1;
            }
            HOp::Hash(f) => {
                if let Some(Some((name, data))) = files.get(*f) {
                    let got = r.get_hash(name).map_err(|e| ("hash-failed".to_string(), json!({"step": i, "error": e.to_string()})))?;
                    if got != Some(fmt::sha256(data)) {
                        return Err(("hash-differs".into(), json!({"step": i, "file": drv::short(name)})));
                    }
                    ctx.count("op:hash");
                }
                i += 1;
            }
            HOp::Open(f) => {
                let Some(Some((name, data))) = files.get(*f) else {
                    i += 1;
                    continue;
                };
                let mut af = r
                    .get_file(name.clone())
                    .map_err(|e| ("get_file-failed".to_string(), json!({"step": i, "error": e.to_string(), "file": drv::short(name)})))?
                    .ok_or_else(|| ("get_file-none".to_string(), json!({"step": i, "file": drv::short(name)})))?;
                ctx.count("op:open");
                if af.size != data.len() as u64 {
                    return Err(("size-differs".into(), json!({"step": i, "file": drv::short(name), "size": af.size, "true": data.len()})));
                }
                let mut off = 0usize;
                i += 1;
                // reads on this handle until the next non-read op
                while i < h.len() {
                    let step = i;
                    let mut one = |bsz: usize, off: &mut usize, buf: &mut Vec<u8>| -> Result<usize, (String, Value)> {
                        if buf.len() < bsz {
                            buf.resize(bsz, 0);
                        }
                        let n = af.data.read(&mut buf[..bsz]).map_err(|e| ("read-failed".to_string(), json!({"step": step, "file": drv::short(name), "offset": *off, "error": e.to_string()})))?;
                        if n > bsz || *off + n > data.len() || buf[..n] != data[*off..*off + n] {
                            return Err(("read-differs".into(), json!({"step": step, "file": drv::short(name), "offset": *off, "returned": n})));
                        }
                        let at_end = *off == data.len();
                        if (n == 0) != (at_end || bsz == 0) {
                            let what = if n == 0 { "end of file reported early" } else { "data after the end" };
                            return Err(("eof-misplaced".into(), json!({"step": step, "file": drv::short(name), "offset": *off, "len": data.len(), "buf": bsz, "what": what})));
                        }
                        *off += n;
                        Ok(n)
                    };
                    let mut buf = Vec::new();
                    match &h[i] {
                        HOp::Read(s) => {
                            one((s.eval(k) as usize).min(24 << 20), &mut off, &mut buf)?;
                            ctx.count("op:read");
                        }
                        HOp::ReadUntil(t, seed) => {
                            let target = (t.eval(k) as usize).min(data.len());
                            let mut rng = Rng::new(*seed);
                            let pool = [1usize, 2, 3, 7, 64, 4096, k.chunk as usize - 1, k.chunk as usize + 1, 70000];
                            while off < target {
                                let bsz = (*rng.pick(&pool)).min(target - off);
                                one(bsz, &mut off, &mut buf)?;
                                ctx.count("op:read");
                            }
                            // classify where the file is abandoned
                            let cls = if off == 0 {
                                "at_start"
                            } else if off == data.len() {
                                "at_end"
                            } else if off as u64 % k.chunk == 0 {
                                "file_offset_multiple_of_chunk"
                            } else {
                                "inside"
                            };
                            ctx.count(&format!("abandon:{cls}"));
                        }
                        HOp::ReadAll(seed) => {
                            let mut rng = Rng::new(*seed);
                            let pool = [1usize, 3, 7, 4096, k.chunk as usize, k.block as usize + 1, data.len() + 5];
                            loop {
                                let bsz = (*rng.pick(&pool)).clamp(1, 24 << 20);
                                if one(bsz, &mut off, &mut buf)? == 0 {
                                    break;
                                }
                            }
                            ctx.count("op:read_all");
                        }
                        _ => break,
                    }
                    i += 1;
                }
                drop(af);
                if i < h.len() && h[i] == HOp::Drop {
                    ctx.count("op:drop");
                    i += 1;
                }
            }
            HOp::Drop | HOp::Read(_) | HOp::ReadUntil(..) | HOp::ReadAll(_) => {
                i += 1;
            }
        }
    }
    Ok(())
}

pub fn run(ctx: &mut Ctx) {
    let cs = cases(ctx);
    for (i, c) in cs.iter().enumerate() {
        if !ctx.mine(i as u64) {
            continue;
        }
        if !ctx.time_left() {
            break;
        }
        if ctx.journal(&json!({"prop": "C10", "scenario": {"case": {"prog": c.prog, "histories": []}, "k": ctx.k.name()}})) {
            run_case(ctx, c);
        }
    }
}

pub fn replay(ctx: &mut Ctx, scenario: &Value) -> Result<(), String> {
    let c: Case = serde_json::from_value(scenario["case"].clone()).map_err(|e| e.to_string())?;
    let from = scenario["k"].as_str().and_then(K::by_name).unwrap_or(ctx.k);
    if from == ctx.k {
        run_case(ctx, &c);
        return Ok(());
    }
    let facts: Vec<xlate::Fact> = serde_json::from_value(scenario["facts"].clone()).unwrap_or_default();
    for v in xlate::variants(&c.prog, &facts, &from, &ctx.k).into_iter().take(4) {
        if v.total_bytes(&ctx.k) > 48 << 20 {
            continue;
        }
        run_case(ctx, &Case { prog: v, histories: c.histories.clone() });
    }
    Ok(())
}
