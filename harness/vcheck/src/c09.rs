//! C09 — writer calls are validated, and a refused call changes nothing.
//! Twin writers: W1 receives every call, W2 only the calls the model accepts.
use crate::ctx::{guarded, Ctx};
use crate::drv::{self, SharedSink};
use mla::{ArchiveWriter, Layers};
use model::consts::{Sz, K};
use model::fmt;
use model::prng::Rng;
use model::prog::{file_bytes, secret_key, DataKind};
use serde::{Deserialize, Serialize};
use serde_json::{json, Value};
use std::collections::BTreeMap;
use x25519_dalek::{PublicKey, StaticSecret};

#[derive(Clone, Copy, Debug, Serialize, Deserialize, PartialEq, Eq, Hash)]
pub enum NameSel {
    Fresh,
    Dup,
    Empty,
    Len65536,
    Len65537,
    /// multi-byte characters, exactly 65536 bytes (valid)
    Wide65536,
    /// 65538 bytes in 32769 (2-byte) or 21846 (3-byte) characters: too long in bytes, not in characters
    Wide65538(u8),
}

#[derive(Clone, Copy, Debug, Serialize, Deserialize, PartialEq, Eq, Hash)]
pub enum IdSel {
    Open(u8),
    Ended(u8),
    Never,
}

#[derive(Clone, Copy, Debug, Serialize, Deserialize, PartialEq, Eq, Hash)]
pub enum Src {
    Exact,
    Short,
    Long,
}

#[derive(Clone, Copy, Debug, Serialize, Deserialize, PartialEq, Eq, Hash)]
pub enum Call {
    Start(NameSel),
    Append(IdSel, Sz, Src),
    End(IdSel),
    Add(NameSel, Sz, Src),
    /// append as many bytes as it takes for the block stream to stand `d` bytes before the next
    /// edge of the chunk (0) / block (1) grid: the next block header then straddles that edge
    AppendAlign(IdSel, u8, i8),
    Flush,
    Finalize,
}

#[derive(Clone, Debug, Serialize, Deserialize)]
pub struct Case {
    pub layers: u8,
    pub calls: Vec<Call>,
    pub seed: u64,
}

pub fn alphabet() -> Vec<Call> {
    use Call::*;
    vec![
        Start(NameSel::Fresh),
        Start(NameSel::Dup),
        Start(NameSel::Empty),
        Start(NameSel::Len65536),
        Start(NameSel::Len65537),
        Append(IdSel::Open(0), Sz::lit(1), Src::Exact),
        Append(IdSel::Open(1), Sz::lit(0), Src::Exact),
        Append(IdSel::Open(0), Sz::new(0, 1, 1), Src::Long),
        Append(IdSel::Open(0), Sz::lit(10), Src::Short),
        Append(IdSel::Ended(0), Sz::lit(3), Src::Exact),
        Append(IdSel::Ended(0), Sz::lit(0), Src::Exact),
        Append(IdSel::Never, Sz::lit(3), Src::Exact),
        End(IdSel::Open(0)),
        End(IdSel::Ended(0)),
        End(IdSel::Never),
        Add(NameSel::Fresh, Sz::lit(5), Src::Exact),
        Add(NameSel::Dup, Sz::lit(5), Src::Exact),
        Add(NameSel::Fresh, Sz::lit(10), Src::Short),
        Add(NameSel::Len65537, Sz::lit(5), Src::Long),
        Flush,
        Finalize,
    ]
}

pub fn cases(ctx: &Ctx) -> Vec<Case> {
    let k = ctx.k;
    let mut rng = Rng::derive(ctx.seed, &[0xC09]);
    let al = alphabet();
    let mut v = Vec::new();
    // exhaustive short sequences (validation logic does not depend on the layers: no-layer archives)
    let maxlen = match (k.is_prod(), ctx.quick()) {
        (true, true) => 3,
        (true, false) => 4,
        (false, _) => 2,
    };
    fn rec(al: &[Call], cur: &mut Vec<Call>, maxlen: usize, out: &mut Vec<Vec<Call>>) {
        if !cur.is_empty() {
            out.push(cur.clone());
        }
        if cur.len() == maxlen {
            return;
        }
        for c in al {
            // nothing interesting follows two finalizations
            if cur.iter().filter(|x| **x == Call::Finalize).count() >= 2 {
                continue;
            }
            cur.push(*c);
            rec(al, cur, maxlen, out);
            cur.pop();
        }
    }
    let mut seqs = Vec::new();
    rec(&al, &mut Vec::new(), maxlen, &mut seqs);
    for (i, s) in seqs.into_iter().enumerate() {
        v.push(Case { layers: if i % 50 == 0 { 3 } else { 0 }, calls: s, seed: ctx.seed ^ i as u64 });
    }
    // sampled long sequences, 4 layer combos
    let n = match (k.is_prod(), ctx.quick()) {
        (true, true) => 12000,
        (true, false) => 300_000,
        (false, true) => 3000,
        (false, false) => 60_000,
    };
    let sizes = [Sz::lit(0), Sz::lit(1), Sz::lit(17), Sz::new(0, 1, -1), Sz::new(0, 1, 1), Sz::lit(300)];
    for i in 0..n {
        let len = 6 + rng.usize_below(35);
        let mut calls = Vec::new();
        for _ in 0..len {
            let c = match rng.below(100) {
                0..=17 => Call::Start(NameSel::Fresh),
                18..=21 => Call::Start(NameSel::Dup),
                22 => Call::Start(NameSel::Empty),
                23 => if rng.chance(1, 2) { Call::Start(NameSel::Len65536) } else { Call::Start(NameSel::Wide65536) },
                24 => Call::Start(NameSel::Len65537),
                25 => Call::Start(NameSel::Wide65538(rng.below(2) as u8)),
                26..=29 => {
                    // aim at a layer edge (block grid rarely: those appends are large), then write again
                    let lvl = u8::from(rng.chance(1, if k.is_prod() { 12 } else { 3 }));
                    calls.push(Call::AppendAlign(IdSel::Open(rng.below(4) as u8), lvl, rng.below(19) as i8 - 1));
                    Call::Append(IdSel::Open(rng.below(4) as u8), *rng.pick(&sizes), Src::Exact)
                }
                30..=50 => Call::Append(IdSel::Open(rng.below(4) as u8), *rng.pick(&sizes), if rng.chance(1, 6) { Src::Long } else { Src::Exact }),
                51 => Call::Append(IdSel::Open(rng.below(4) as u8), Sz::lit(9), Src::Short),
                52..=55 => Call::Append(IdSel::Ended(rng.below(3) as u8), *rng.pick(&sizes), Src::Exact),
                56..=57 => Call::Append(IdSel::Never, *rng.pick(&sizes), Src::Exact),
                58..=72 => Call::End(IdSel::Open(rng.below(4) as u8)),
                73..=76 => Call::End(IdSel::Ended(rng.below(3) as u8)),
                77..=78 => Call::End(IdSel::Never),
                79..=86 => Call::Add(NameSel::Fresh, *rng.pick(&sizes), Src::Exact),
                87..=89 => Call::Add(NameSel::Dup, *rng.pick(&sizes), Src::Exact),
                90 => if rng.chance(1, 2) { Call::Add(NameSel::Len65537, Sz::lit(4), Src::Exact) } else { Call::Add(NameSel::Wide65538(rng.below(2) as u8), Sz::lit(4), Src::Exact) },
                91 => Call::Add(NameSel::Fresh, Sz::lit(12), Src::Short),
                92..=96 => Call::Flush,
                _ => Call::Finalize,
            };
            calls.push(c);
        }
        v.push(Case { layers: [0u8, 1, 2, 3][i % 4], calls, seed: rng.next() });
    }
    v
}

#[derive(Clone, Copy, PartialEq, Eq, Debug)]
enum Expect {
    MustOk,
    MustErr,
    DontCare,
}

struct MFile {
    name: String,
    data: Vec<u8>,
    open: bool,
    id1: Option<u64>,
    id2: Option<u64>,
}

type W<'a> = ArchiveWriter<'a, SharedSink>;

fn new_writer<'a>(layers: u8, pks: &[PublicKey]) -> Result<(W<'a>, SharedSink), String> {
    let mut c = mla::config::ArchiveWriterConfig::new();
    c.set_layers(drv::layers_of(layers));
    if layers & 2 != 0 {
        c.with_compression_level(1).unwrap();
    }
    if layers & 1 != 0 {
        c.add_public_keys(pks);
    }
    let _ = Layers::EMPTY;
    let sink = SharedSink::default();
    let w = ArchiveWriter::from_config(sink.clone(), c).map_err(|e| e.to_string())?;
    Ok((w, sink))
}

fn name_for(sel: NameSel, files: &[MFile], counter: &mut u32) -> String {
    match sel {
        NameSel::Fresh => {
            *counter += 1;
            format!("file-{counter}")
        }
        NameSel::Dup => files.last().map_or_else(|| "file-never".to_string(), |f| f.name.clone()),
        NameSel::Empty => String::new(),
        NameSel::Len65536 => {
            *counter += 1;
            let mut s = format!("L{counter}-");
            while s.len() < 65536 {
                s.push('x');
            }
            s
        }
        NameSel::Len65537 => {
            *counter += 1;
            let mut s = format!("T{counter}-");
            while s.len() < 65537 {
                s.push('y');
            }
            s
        }
        NameSel::Wide65536 => {
            *counter += 1;
            let mut s = format!("W{counter:05}-");
            if s.len() % 2 != 0 {
                s.push('-');
            }
            while s.len() < 65536 {
                s.push('é');
            }
            s
        }
        NameSel::Wide65538(w) => {
            *counter += 1;
            let (ch, unit) = if w % 2 == 0 { ('é', 2) } else { ('\u{fffd}', 3) };
            let mut s = String::new();
            while s.len() + unit <= 65538 {
                s.push(ch);
            }
            // the distinguishing counter goes at the end, in what is left (0 or 2 bytes)
            while s.len() < 65538 {
                s.push((b'0' + (*counter % 10) as u8) as char);
            }
            s
        }
    }
}

pub fn run_case(ctx: &mut Ctx, c: &Case) {
    let k = ctx.k;
    ctx.eval(model::prng::fnv(format!("{:?}{}", c.calls, c.layers).as_bytes()), c.calls.len() >= 2);
    ctx.count(&format!("len:{}", if c.calls.len() <= 5 { c.calls.len().to_string() } else { "6+".into() }));
    ctx.sample(|| json!({"case": c}));
    let scen = || json!({"case": c, "k": k.name()});
    let r = guarded(|| run_twin(ctx, c, &k));
    match r {
        Ok(Ok(())) => ctx.count("held"),
        Ok(Err((sig, detail))) => ctx.violation("C09", &sig, scen(), detail),
        Err((loc, msg)) => ctx.violation("C09", &format!("panic:{loc}"), scen(), json!({"panic": msg})),
    }
}

fn kind_of(c: &Call) -> &'static str {
    match c {
        Call::Start(_) => "start",
        Call::Append(..) | Call::AppendAlign(..) => "append",
        Call::End(_) => "end",
        Call::Add(..) => "add",
        Call::Flush => "flush",
        Call::Finalize => "finalize",
    }
}

fn run_twin(ctx: &mut Ctx, c: &Case, k: &K) -> Result<(), (String, Value)> {
    let sks = [secret_key(c.seed, 0)];
    let pks = [PublicKey::from(&StaticSecret::from(sks[0]))];
    let (mut w1, s1) = new_writer(c.layers, &pks).map_err(|e| ("writer-creation".to_string(), json!({"error": e})))?;
    let (mut w2, s2) = new_writer(c.layers, &pks).map_err(|e| ("writer-creation".to_string(), json!({"error": e})))?;
    let mut files: Vec<MFile> = Vec::new();
    let mut counter = 0u32;
    let mut finalized = false;
    let mut pos = 0u64;
    let mut refused = 0usize;
    let mut refused_kinds: Vec<String> = Vec::new();
    let mut ended_history = false;
    let mut all_ok = true;
    let payload = |seed: u64, n: usize| file_bytes(seed, 0, DataKind::Random, n);
    for (i, call) in c.calls.iter().enumerate() {
        let open_ix: Vec<usize> = (0..files.len()).filter(|j| files[*j].open).collect();
        let ended_ix: Vec<usize> = (0..files.len()).filter(|j| !files[*j].open).collect();
        let resolve = |sel: IdSel| -> Option<usize> {
            match sel {
                IdSel::Open(n) if !open_ix.is_empty() => Some(open_ix[n as usize % open_ix.len()]),
                IdSel::Ended(n) if !ended_ix.is_empty() => Some(ended_ix[n as usize % ended_ix.len()]),
                _ => None,
            }
        };
        let name_ok = |n: &str, files: &[MFile]| n.len() <= 65536 && !files.iter().any(|f| f.name == n);
        // ---- expectation and execution on W1
        // an aligned append is an append whose size comes from the current position of the block stream
        let call = &match *call {
            Call::AppendAlign(sel, lvl, d) => {
                let edge = if lvl == 0 { k.chunk } else { k.block } as i64;
                let mut n = (edge - i64::from(d) - (pos as i64 + 17)).rem_euclid(edge);
                if n == 0 {
                    n = edge;
                }
                Call::Append(sel, Sz::lit(n), Src::Exact)
            }
            other => other,
        };
        let pos_before = pos;
        let (exp, why, ok1, effect): (Expect, String, bool, Option<Box<dyn FnOnce(&mut Vec<MFile>, &mut W, &mut bool) -> Result<(), String>>>) = match *call {
            Call::Flush => {
                let r = w1.flush().is_ok();
                (Expect::DontCare, "flush".into(), r, Some(Box::new(|_f, w2, _| w2.flush().map_err(|e| e.to_string()))))
            }
            Call::Finalize => {
                let exp = if finalized || !open_ix.is_empty() { Expect::MustErr } else { Expect::MustOk };
                let why = if finalized { "finalize-after-finalize" } else if !open_ix.is_empty() { "finalize-with-open-file" } else { "finalize" };
                let r = w1.finalize().is_ok();
                (exp, why.into(), r, Some(Box::new(|_f, w2, fin| {
                    *fin = true;
                    w2.finalize().map_err(|e| e.to_string())
                })))
            }
            Call::AppendAlign(..) => unreachable!("mapped to Append above"),
            Call::Start(sel) => {
                let name = name_for(sel, &files, &mut counter);
                let exp = if finalized || !name_ok(&name, &files) { Expect::MustErr } else { Expect::MustOk };
                let why = if finalized { "start-after-finalize".to_string() } else if name.len() > 65536 { "name-too-long".into() } else if !name_ok(&name, &files) { "duplicate-name".into() } else { "start".into() };
                let r = w1.start_file(&name);
                let ok1 = r.is_ok();
                let id1 = r.ok();
                (exp, why, ok1, Some(Box::new(move |f, w2, _| {
                    let id2 = w2.start_file(&name).map_err(|e| e.to_string())?;
                    f.push(MFile { name, data: Vec::new(), open: true, id1, id2: Some(id2) });
                    Ok(())
                })))
            }
            Call::Append(sel, sz, src) => {
                let n = sz.eval(k) as usize;
                let target = resolve(sel);
                let is_open = target.is_some_and(|t| files[t].open);
                let data = payload(c.seed ^ i as u64, n);
                let given: Vec<u8> = match src {
                    Src::Exact => data.clone(),
                    Src::Short => data[..n - n.min(7)].to_vec(),
                    Src::Long => {
                        let mut d = data.clone();
                        d.extend_from_slice(b"EXTRA-BYTES-NOT-TO-BE-TAKEN");
                        d
                    }
                };
                let short = src == Src::Short && n > 0;
                let exp = if finalized || !is_open || short { Expect::MustErr } else { Expect::MustOk };
                let why = if finalized { "append-after-finalize" } else if target.is_none() && sel == IdSel::Never { "append-unknown-id" } else if !is_open { "append-ended-or-unknown-id" } else if short { "append-short-source" } else { "append" };
                let id1 = target.and_then(|t| files[t].id1).unwrap_or(0xDEAD_0000 + i as u64);
                let r = w1.append_file_content(id1, n as u64, &given[..]).is_ok();
                if short && is_open && !finalized {
                    ended_history = true;
                }
                (exp, why.into(), r, Some(Box::new(move |f, w2, _| {
                    let t = target.ok_or("no target")?;
                    let id2 = f[t].id2.ok_or("no id")?;
                    w2.append_file_content(id2, n as u64, &data[..]).map_err(|e| e.to_string())?;
                    f[t].data.extend_from_slice(&data);
                    Ok(())
                })))
            }
            Call::End(sel) => {
                let target = resolve(sel);
                let is_open = target.is_some_and(|t| files[t].open);
                let exp = if finalized || !is_open { Expect::MustErr } else { Expect::MustOk };
                let why = if finalized { "end-after-finalize" } else if !is_open { "end-ended-or-unknown-id" } else { "end" };
                let id1 = target.and_then(|t| files[t].id1).unwrap_or(0xDEAD_0000 + i as u64);
                let r = w1.end_file(id1).is_ok();
                (exp, why.into(), r, Some(Box::new(move |f, w2, _| {
                    let t = target.ok_or("no target")?;
                    let id2 = f[t].id2.ok_or("no id")?;
                    w2.end_file(id2).map_err(|e| e.to_string())?;
                    f[t].open = false;
                    Ok(())
                })))
            }
            Call::Add(sel, sz, src) => {
                let n = sz.eval(k) as usize;
                let name = name_for(sel, &files, &mut counter);
                let data = payload(c.seed ^ (i as u64) << 8, n);
                let given: Vec<u8> = match src {
                    Src::Exact => data.clone(),
                    Src::Short => data[..n.saturating_sub(3.min(n))].to_vec(),
                    Src::Long => {
                        let mut d = data.clone();
                        d.extend_from_slice(b"EXTRA");
                        d
                    }
                };
                let short = src == Src::Short && n > 0;
                let good_name = name_ok(&name, &files);
                let exp = if finalized || !good_name || short { Expect::MustErr } else { Expect::MustOk };
                let why = if finalized { "add-after-finalize".to_string() } else if name.len() > 65536 { "add-name-too-long".into() } else if !good_name { "add-duplicate-name".into() } else if short { "add-short-source".into() } else { "add".into() };
                let r = w1.add_file(&name, n as u64, &given[..]).is_ok();
                if short && good_name && !finalized {
                    ended_history = true;
                }
                (exp, why, r, Some(Box::new(move |f, w2, _| {
                    w2.add_file(&name, n as u64, &data[..]).map_err(|e| e.to_string())?;
                    f.push(MFile { name, data, open: false, id1: None, id2: None });
                    Ok(())
                })))
            }
        };
        ctx.count(&format!("call:{why}"));
        let kind = kind_of(call);
        match exp {
            Expect::MustErr => {
                if ok1 {
                    return Err((format!("refused-call-accepted:{why}"), json!({"step": i, "call": call, "message": format!("{kind} should have been refused ({why}) but returned Ok")})));
                }
                refused += 1;
                refused_kinds.push(why.clone());
                if i + 1 < c.calls.len() {
                    ctx.count("continued_after_refusal");
                }
            }
            Expect::MustOk => {
                if !ok1 {
                    return Err((format!("valid-call-refused:{why}:after{}", refused.min(1)), json!({"step": i, "call": call, "refused_before": refused_kinds})));
                }
                let eff = effect.unwrap();
                eff(&mut files, &mut w2, &mut finalized).map_err(|e| ("twin-writer-refused-valid-call".to_string(), json!({"step": i, "call": call, "error": e})))?;
                // position of the block stream after this call (FORMAT.md block sizes)
                let content = |n: u64| if n > 0 { 17 + n } else { 0 };
                pos += match *call {
                    Call::Start(_) => 17 + files.last().map_or(0, |f| f.name.len() as u64),
                    Call::Append(_, sz, _) => content(sz.eval(k) as u64),
                    Call::End(_) => 41,
                    Call::Add(_, sz, _) => 17 + files.last().map_or(0, |f| f.name.len() as u64) + content(sz.eval(k) as u64) + 41,
                    _ => 0,
                };
                if pos != pos_before && c.layers != 0 {
                    let edge = if c.layers & 2 != 0 { k.block } else { k.chunk };
                    let to_edge = edge - pos_before % edge;
                    if to_edge < 17 {
                        ctx.count("musthit:block_header_straddles_layer_edge");
                    }
                }
                // keep W1's id for a newly started file: it was returned above through the closure capture
            }
            Expect::DontCare => {
                if !ok1 {
                    all_ok = false;
                }
                if let Some(eff) = effect {
                    let _ = eff(&mut files, &mut w2, &mut finalized);
                }
            }
        }
        if ended_history {
            ctx.count("history_ended_by_short_source");
            return Ok(());
        }
    }
    // close what is open, finalize both
    let open_now: Vec<usize> = (0..files.len()).filter(|j| files[*j].open).collect();
    for t in open_now {
        let ok = files[t].id1.is_some_and(|id| w1.end_file(id).is_ok());
        if !ok {
            return Err((format!("valid-call-refused:closing-end:after{}", refused.min(1)), json!({"file": drv::short(&files[t].name), "refused_before": refused_kinds})));
        }
        let id2 = files[t].id2.unwrap();
        w2.end_file(id2).map_err(|e| ("twin-writer-refused-valid-call".to_string(), json!({"error": e.to_string()})))?;
        files[t].open = false;
    }
    if !finalized {
        if w1.finalize().is_err() {
            return Err((format!("valid-call-refused:closing-finalize:after{}", refused.min(1)), json!({"refused_before": refused_kinds})));
        }
        w2.finalize().map_err(|e| ("twin-writer-refused-valid-call".to_string(), json!({"error": e.to_string()})))?;
    }
    drop(w1);
    drop(w2);
    let raw1 = std::mem::take(&mut s1.0.borrow_mut().buf);
    let raw2 = std::mem::take(&mut s2.0.borrow_mut().buf);
    let expected: BTreeMap<String, Vec<u8>> = files.iter().map(|f| (f.name.clone(), f.data.clone())).collect();
    let tag = if refused > 0 { "after-refused-call" } else if all_ok { "all-ok-sequence" } else { "sequence" };
    let mut rng = Rng::new(c.seed);
    let sk_list: Vec<[u8; 32]> = if c.layers & 1 != 0 { sks.to_vec() } else { vec![] };
    // the refusal most likely to matter names the signature
    let culprit = |kinds: &[String]| -> String {
        kinds.iter().find(|k| k.contains("too-long")).or_else(|| kinds.iter().find(|k| k.contains("short"))).or(kinds.first()).cloned().unwrap_or_default()
    };
    for (which, raw) in [("W1", &raw1), ("W2", &raw2)] {
        let got = drv::read_all(raw, &sk_list, &mut rng).map_err(|e| {
            let first = culprit(&refused_kinds);
            (format!("final-archive-unreadable:{which}:{tag}:{first}"), json!({"error": e, "refused": refused_kinds}))
        })?;
        drv::compare_maps(&expected, &got).map_err(|e| {
            let first = culprit(&refused_kinds);
            (format!("final-archive-differs:{which}:{tag}:{first}"), json!({"error": e, "refused": refused_kinds}))
        })?;
    }
    // independent decoder: no orphan block from a refused call in W1's stream
    let d = fmt::decode_archive(k, &raw1, &sk_list).map_err(|e| {
        let first = culprit(&refused_kinds);
        (format!("final-archive-not-conformant:{tag}:{first}"), json!({"error": e, "refused": refused_kinds}))
    })?;
    if d.files() != expected {
        return Err((format!("final-archive-differs:model:{tag}"), json!({"refused": refused_kinds})));
    }
    if refused > 0 {
        ctx.count("twin_comparisons_after_refusal");
        if c.layers & 1 == 0 && raw1 == raw2 {
            ctx.count("twin_byte_identical");
        }
    }
    Ok(())
}

pub fn run(ctx: &mut Ctx) {
    let cs = cases(ctx);
    for (i, c) in cs.iter().enumerate() {
        if !ctx.mine(i as u64) {
            continue;
        }
        if !ctx.time_left() {
            break;
        }
        if ctx.journal(&json!({"prop": "C09", "scenario": {"case": c, "k": ctx.k.name()}})) {
            run_case(ctx, c);
        }
    }
}

pub fn replay(ctx: &mut Ctx, scenario: &Value) -> Result<(), String> {
    let c: Case = serde_json::from_value(scenario["case"].clone()).map_err(|e| e.to_string())?;
    run_case(ctx, &c);
    Ok(())
}
