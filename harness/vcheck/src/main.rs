mod alloc;
mod c01;
mod c02;
mod c03;
mod c04;
mod c05;
mod c06;
mod c07;
mod c08;
mod c09;
mod c10;
mod sweep;
mod c11;
mod c12;
mod c13;
mod c14;
mod c15;
mod c16;
mod c17;
mod c18;
mod c19;
mod c20;
mod ctx;
mod drv;
mod gen;
mod shapes;
mod tune;
mod xlate;

use ctx::{Ctx, Tier};

#[global_allocator]
static GLOBAL: alloc::Counting = alloc::Counting;
use serde_json::Value;
use std::io::BufRead;

fn arg<'a>(args: &'a [String], name: &str) -> Option<&'a str> {
    args.iter().position(|a| a == name).and_then(|i| args.get(i + 1)).map(String::as_str)
}

fn dispatch_run(prop: &str, ctx: &mut Ctx) -> bool {
    match prop {
        "C01" => c01::run(ctx),
        "C11" => c11::run(ctx),
        "C02" => c02::run(ctx),
        "C03" => c03::run(ctx),
        "C04" => c04::run(ctx),
        "C05" => c05::run(ctx),
        "C06" => c06::run(ctx),
        "C07" => c07::run(ctx),
        "C08" => c08::run(ctx),
        "C09" => c09::run(ctx),
        "C10" => c10::run(ctx),
        "C12" => c12::run(ctx),
        "C13" => c13::run(ctx),
        "C14" => c14::run(ctx),
        "C15" => c15::run(ctx),
        "C16" => c16::run(ctx),
        "C17" => c17::run_all(ctx),
        "C18" => c18::run(ctx),
        "C19" => c19::run(ctx),
        "C20" => c20::run(ctx),
        _ => return false,
    }
    true
}

fn dispatch_replay(prop: &str, ctx: &mut Ctx, scenario: &Value) -> Result<(), String> {
    match prop {
        "C01" => c01::replay(ctx, scenario),
        "C11" => c11::replay(ctx, scenario),
        "C02" => c02::replay(ctx, scenario),
        "C03" => c03::replay(ctx, scenario),
        "C04" => c04::replay(ctx, scenario),
        "C05" => c05::replay(ctx, scenario),
        "C06" => c06::replay(ctx, scenario),
        "C07" => c07::replay(ctx, scenario),
        "C08" => c08::replay(ctx, scenario),
        "C09" => c09::replay(ctx, scenario),
        "C10" => c10::replay(ctx, scenario),
        "C12" => c12::replay(ctx, scenario),
        "C13" => c13::replay(ctx, scenario),
        "C14" => c14::replay(ctx, scenario),
        "C15" => c15::replay(ctx, scenario),
        "C16" => c16::replay(ctx, scenario),
        "C17" => c17::replay(ctx, scenario),
        "C18" => c18::replay(ctx, scenario),
        "C19" => c19::replay(ctx, scenario),
        "C20" => c20::replay(ctx, scenario),
        _ => Err(format!("no replay for {prop}")),
    }
}

fn main() {
    let args: Vec<String> = std::env::args().collect();
    if args.len() < 2 {
        eprintln!("usage: vcheck <Cxx|replay|anchor|consts> [--tier quick|thorough] [--seed N] [--shard i/n] [--budget S] [--out DIR] [--file F]");
        std::process::exit(2);
    }
    let cmd = args[1].as_str();
    let k = drv::compiled_k();
    if cmd == "consts" {
        println!("{}", serde_json::to_string(&k).unwrap());
        return;
    }
    if cmd == "c15child" {
        c15::child(&args);
        return;
    }
    if cmd == "c07child" {
        c07::child(&args);
        return;
    }
    if cmd == "anchor" {
        match model::anchor::check(arg(&args, "--repo").unwrap_or("/repo")) {
            Ok(s) => println!("{s}"),
            Err(e) => {
                eprintln!("HARNESS-ERROR model disagrees with FORMAT.md sample: {e}");
                std::process::exit(2);
            }
        }
        return;
    }
    let tier = match arg(&args, "--tier") {
        Some("thorough") => Tier::Thorough,
        _ => Tier::Quick,
    };
    let seed: u64 = arg(&args, "--seed").and_then(|s| s.parse().ok()).unwrap_or(1);
    let (shard, nshards) = arg(&args, "--shard")
        .and_then(|s| s.split_once('/'))
        .map_or((0, 1), |(a, b)| (a.parse().unwrap(), b.parse().unwrap()));
    let budget: f64 = arg(&args, "--budget").and_then(|s| s.parse().ok()).unwrap_or(1e9);
    let out = arg(&args, "--out").map(str::to_string);
    let resume_after: u64 = arg(&args, "--resume-after").and_then(|s| s.parse().ok()).unwrap_or(0);
    ctx::install_panic_hook();
    ctx::start_watchdog(if tier == Tier::Quick { 90 } else { 400 }, if tier == Tier::Quick { 30 } else { 120 });
    if cmd == "replay" {
        // each line: {"prop": "...", "scenario": {...}}
        let file = arg(&args, "--file").expect("--file");
        let f = std::io::BufReader::new(std::fs::File::open(file).expect("open replay file"));
        let mut ctx = Ctx::new("replay", tier, seed, shard, nshards, k, budget, out);
        ctx.resume_after = resume_after;
        for (i, line) in f.lines().enumerate() {
            let line = line.unwrap();
            if line.trim().is_empty() || !ctx.mine(i as u64) {
                continue;
            }
            let v: Value = serde_json::from_str(&line).expect("replay line");
            let prop = v["from"].as_str().or(v["prop"].as_str()).unwrap_or("?").to_string();
            ctx.prop = prop.clone();
            ctx.cand = v["cand"].as_u64();
            if !ctx.journal(&v) {
                continue;
            }
            if let Err(e) = dispatch_replay(&prop, &mut ctx, &v["scenario"]) {
                eprintln!("HARNESS-ERROR replay: {e}");
                std::process::exit(2);
            }
        }
        ctx.prop = "replay".into();
        ctx.finish();
        return;
    }
    let mut ctx = Ctx::new(cmd, tier, seed, shard, nshards, k, budget, out);
    ctx.resume_after = resume_after;
    if !dispatch_run(cmd, &mut ctx) {
        eprintln!("unknown property {cmd}");
        std::process::exit(2);
    }
    ctx.finish();
}
