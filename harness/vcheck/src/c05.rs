//! C05 — repair is complete on undamaged archives and monotone in what it is given.
use crate::c02;
use crate::ctx::Ctx;
use crate::gen;
use crate::sweep::{self, Case, CutAt, CutSel};
use model::consts::Sz;
use model::prng::Rng;
use model::prog::*;
use serde_json::Value;

fn intact(p: Program) -> Case {
    Case { prog: p, cuts: CutSel::List(vec![CutAt { refs: vec![], from_eof: 0 }]), seg: (0, 1), foreign: None }
}

/// (a) undamaged archives, aimed at compressed streams that end on / next to a block edge
pub fn intact_cases(ctx: &mut Ctx) -> Vec<Case> {
    let k = ctx.k;
    let mut rng = Rng::derive(ctx.seed, &[0xC05]);
    let mut v = Vec::new();
    let kinds = [DataKind::Constant(0), DataKind::Text, DataKind::Random];
    if !k.is_prod() {
        let levels: &[u32] = if ctx.quick() { &[1, 5] } else { &[0, 1, 5, 9, 11] };
        let step = if ctx.quick() { 5 } else { 1 };
        for &level in levels {
            for n in 0..=3 * k.block {
                let near = n % k.block <= 2 || n % k.block >= k.block - 2;
                if n % step != 0 && !near {
                    continue;
                }
                let data = kinds[(n % 3) as usize];
                let layers = if n % 2 == 0 { 2 } else { 3 };
                v.push(intact(single_file(layers, level, Sz::from_concrete(n, &k), data, ctx.seed ^ n)));
            }
        }
        // block stream (not the file) ends on the edge
        let edges = [Sz::new(1, 0, 0), Sz::new(2, 0, 0), Sz::new(3, 0, 0)];
        for layers in [2u8, 3] {
            for &level in levels {
                for p in gen::edge_programs(&k, layers, level, &edges, ctx.seed ^ u64::from(level)) {
                    v.push(intact(p));
                }
            }
        }
        // many small entries
        for layers in LAYER_COMBOS {
            let n = if ctx.quick() { 300 } else { 2000 };
            let files = (0..n).map(|i| FileSpec { name: NameKind::Plain(i), data: DataKind::Text }).collect();
            let mut ops: Vec<Op> = (0..n as usize).map(|i| Op::Add(i, Sz::lit(10))).collect();
            ops.push(Op::Finalize);
            v.push(intact(Program { layers, level: 5, nrecip: 1, files, ops, seed: ctx.seed }));
        }
        // uncompressed too
        for layers in [0u8, 1] {
            for n in (0..=2 * k.block).step_by(7) {
                v.push(intact(single_file(layers, 5, Sz::from_concrete(n, &k), DataKind::Random, ctx.seed ^ n)));
            }
        }
    } else {
        let levels: Vec<u32> = if ctx.quick() { vec![1, 5] } else { (0..=11).collect() };
        let maxb = if ctx.quick() { 1 } else { 3 };
        for &level in &levels {
            for (ki, data) in kinds.iter().enumerate() {
                for i in 1..=maxb {
                    if level >= 10 && (i > 1 || ki == 2) {
                        continue; // quality 10/11 on incompressible or multi-block data costs minutes
                    }
                    let rs: &[i64] = if ctx.quick() { &[-1, 0, 1] } else { &[-2, -1, 0, 1, 2] };
                    for &r in rs {
                        if ctx.quick() && (ki + r.unsigned_abs() as usize + level as usize) % 2 == 1 {
                            continue;
                        }
                        let layers = if (r + i) % 2 == 0 { 2 } else { 3 };
                        v.push(intact(single_file(layers, level, Sz::new(i, 0, r), *data, ctx.seed ^ (level as u64 * 7 + i as u64))));
                    }
                }
            }
        }
        let edges: Vec<Sz> = (1..=maxb).map(|b| Sz::new(b, 0, 0)).collect();
        for layers in [2u8, 3] {
            let lv: &[u32] = if ctx.quick() { &[1] } else { &[0, 5, 9] };
            for &level in lv {
                let mut ep = gen::edge_programs(&k, layers, level, &edges, ctx.seed ^ 0xE);
                if ctx.quick() {
                    rng.shuffle(&mut ep);
                    ep.truncate(5);
                }
                v.extend(ep.into_iter().map(intact));
            }
        }
        for layers in LAYER_COMBOS {
            let n = 2000;
            let files = (0..n).map(|i| FileSpec { name: NameKind::Plain(i), data: DataKind::Text }).collect();
            let mut ops: Vec<Op> = (0..n as usize).map(|i| Op::Add(i, Sz::lit(10))).collect();
            ops.push(Op::Finalize);
            v.push(intact(Program { layers, level: 5, nrecip: 1, files, ops, seed: ctx.seed }));
        }
        // many archives crossing one block edge: whether the fail-safe decompressor
        // crosses it depends on how the brotli stream of the block happens to end
        let ncross = if ctx.quick() { 160 } else { 1600 };
        for i in 0..ncross {
            let layers = if i % 2 == 0 { 2 } else { 3 };
            let level = *rng.pick(if ctx.quick() { &[0u32, 1, 2, 5][..] } else { &[0u32, 1, 2, 3, 4, 5, 6, 9][..] });
            let data = *rng.pick(&[DataKind::Constant(9), DataKind::Text, DataKind::Period(3), DataKind::Period(1000), DataKind::Random, DataKind::Marker]);
            let npieces = 1 + rng.usize_below(4);
            let extra = rng.range(-60, 200_000);
            let mut ops = vec![Op::Start(0)];
            let mut left = k.block as i64 + extra;
            for j in 0..npieces {
                let n = if j + 1 == npieces { left } else { rng.range(0, left) };
                left -= n;
                ops.push(Op::Append(0, Sz::lit(n)));
            }
            ops.push(Op::End(0));
            ops.push(Op::Finalize);
            v.push(intact(Program { layers, level, nrecip: 1, files: vec![FileSpec { name: NameKind::Plain(0), data }], ops, seed: rng.next() }));
        }
        // many small incompressible entries: the compressed stream is long and the
        // repair reader issues thousands of tiny reads at every position of its input cache
        // residue sweep: R incompressible bytes followed by constant data make the first
        // compressed block end at (about) R + c, so R = 0..FSBUF puts the end of the block
        // at every position of the fail-safe reader's input cache
        let step = if ctx.quick() { 1 } else { 1 };
        for r in (0..k.fsbuf as i64 + 64).step_by(step) {
            let layers = if r % 8 == 7 { 3 } else { 2 };
            let level = if ctx.quick() { 1 } else { [0u32, 1, 5][(r % 3) as usize] };
            v.push(intact(Program {
                layers,
                level,
                nrecip: 1,
                files: vec![FileSpec { name: NameKind::Plain(0), data: DataKind::Random }, FileSpec { name: NameKind::Plain(1), data: DataKind::Constant(0x55) }],
                ops: vec![Op::Add(0, Sz::lit(r)), Op::Add(1, Sz::new(1, 0, 1000)), Op::Finalize],
                seed: ctx.seed ^ 0x7E5,
            }));
        }
        let nseeds = if ctx.quick() { 3 } else { 24 };
        for s in 0..nseeds {
            for layers in [2u8, 3] {
                let n = 1500 + 500 * (s % 4) as u32;
                let kind = if s % 2 == 0 { DataKind::Text } else { DataKind::Random };
                let files = (0..n).map(|i| FileSpec { name: NameKind::Plain(i), data: kind }).collect();
                let mut ops: Vec<Op> = (0..n as usize).map(|i| Op::Add(i, Sz::lit(20 + ((i * 7 + s) % 50) as i64))).collect();
                ops.push(Op::Finalize);
                v.push(intact(Program { layers, level: [1, 5, 9][s % 3], nrecip: 1, files, ops, seed: ctx.seed ^ (s as u64 * 977) }));
            }
        }
        // sizes around chunk edges, all layer combos
        for layers in LAYER_COMBOS {
            for d in [-17i64, -16, -1, 0, 1] {
                v.push(intact(single_file(layers, 5, Sz::new(0, 1, d), DataKind::Random, ctx.seed ^ d as u64)));
            }
        }
    }
    v
}

pub fn run(ctx: &mut Ctx) {
    let k = ctx.k;
    let mut cs = intact_cases(ctx);
    for c in &cs {
        // evidence: what kind of intact archives were tried
        let _ = c;
    }
    let n_intact = cs.len();
    cs.extend(c02::cases(ctx, 5));
    for (i, c) in cs.iter().enumerate() {
        if !ctx.mine(i as u64) {
            continue;
        }
        if !ctx.time_left() {
            break;
        }
        if i < n_intact {
            let p = &c.prog;
            let lay = layout(p, &k);
            let blocks = lay.stream_len / k.block;
            let exact = lay.stream_len % k.block == 0 || lay.points.iter().any(|pt| pt.pos > 0 && pt.pos % k.block == 0);
            if p.layers & 2 != 0 {
                ctx.count(&format!("intact:blocks{}:level{}:{}", blocks.min(3), p.level, if exact { "on_edge" } else { "off_edge" }));
                if exact {
                    ctx.count("musthit:intact_compressed_point_on_block_edge");
                }
            } else {
                ctx.count("intact:uncompressed");
            }
            if p.files.len() > 100 {
                ctx.count("musthit:many_small_entries");
            }
        }
        if ctx.journal(&serde_json::json!({"prop": "C05", "scenario": {"case": c, "k": k.name()}})) {
            sweep::run_case(ctx, c, "C05");
        }
    }
}

pub fn replay(ctx: &mut Ctx, scenario: &Value) -> Result<(), String> {
    sweep::replay(ctx, scenario, "C05")
}
