//! C17 — the command-line tool's commands agree with each other and with the input files.
use crate::ctx::Ctx;
use model::prng::Rng;
use serde::{Deserialize, Serialize};
use serde_json::{json, Value};
use std::collections::BTreeMap;
use std::io::Read;
use std::path::{Path, PathBuf};
use std::process::Command;

#[derive(Clone, Debug, Serialize, Deserialize, PartialEq, Eq)]
pub struct Opts {
    /// bit 0 encrypt, bit 1 compress
    pub layers: u8,
    pub level: Option<u32>,
    /// number of recipient keys (when encrypting)
    pub nkeys: usize,
}

#[derive(Clone, Debug, Serialize, Deserialize)]
pub enum Step {
    Convert(Opts),
    Repair(Opts),
}

#[derive(Clone, Debug, Serialize, Deserialize)]
pub struct Case {
    /// (relative path under in/, size)
    pub tree: Vec<(String, u64)>,
    pub create: Opts,
    /// pass the directory (recursion) instead of the file list
    pub by_dir: bool,
    pub steps: Vec<Step>,
    pub seed: u64,
}

fn gen_opts(rng: &mut Rng) -> Opts {
    let layers = rng.below(4) as u8;
    Opts { layers, level: if layers & 2 != 0 && rng.chance(1, 2) { Some(*rng.pick(&[0u32, 5, 11])) } else { None }, nkeys: 1 + rng.usize_below(3) }
}

pub fn cases(ctx: &Ctx) -> Vec<Case> {
    let mut v = Vec::new();
    if !ctx.k.is_prod() {
        return v;
    }
    let k = ctx.k;
    let mut rng = Rng::derive(ctx.seed, &[0xC17]);
    let n = if ctx.quick() { 240 } else { 4000 };
    let long_a = format!("long-directory-name-{}/another-long-directory-{}/yet-another-{}/file-with-a-long-name.dat", "a".repeat(28), "b".repeat(29), "c".repeat(26));
    let long_b = format!("{}/{}", "d".repeat(120), "e".repeat(200));
    let long_c = format!("unicode-é日本語-{}/ü{}", "日".repeat(30), "ß".repeat(40));
    let names = ["a.txt", "empty", "with space.bin", "é日本語.dat", "sub/b.bin", "sub/deep/er/c", "sub/with space/d d", "z-last", "sub2/ü", "UPPER.TXT", long_a.as_str(), long_b.as_str(), long_c.as_str(), "sub/ninety-nine-bytes-path-padding-padding-padding-padding-padding-padding-padding-padding-pad",
        // dots that are not parent-directory components, other names a path filter may trip on
        "notes..txt", "v1..2/x", "...", "..hidden", ".hidden", "trailing..", "dots/.../f", "a.b.c.d", "-dash", "sub/-o", "~", "sub/~tilde", "back\\slash", "q?*[glob]", "tab\there", "%41", "CON", "sub/nul",
        // whitespace at the ends (and the same name without it, next to it)
        "notes ", "notes", " lead", "sub/trail \t", "sub/trail"];
    for i in 0..n {
        let nf = 1 + rng.usize_below(6);
        let mut tree: BTreeMap<String, u64> = BTreeMap::new();
        for _ in 0..nf {
            let name = rng.pick(&names).to_string();
            // a path cannot be both a file and a directory
            if tree.keys().any(|k| k.starts_with(&format!("{name}/")) || name.starts_with(&format!("{k}/"))) {
                continue;
            }
            let size = match rng.below(10) {
                0 | 1 => 0,
                2 => 1,
                3 => k.chunk - 1,
                4 => k.chunk + 1,
                5 if !ctx.quick() => k.block + 1,
                6 if !ctx.quick() => k.block - 1,
                _ => rng.below(5000),
            };
            tree.insert(name, size);
        }
        let mut steps = Vec::new();
        for _ in 0..rng.usize_below(3) {
            let o = gen_opts(&mut rng);
            steps.push(if rng.chance(1, 2) { Step::Convert(o) } else { Step::Repair(o) });
        }
        let mut create = gen_opts(&mut rng);
        if i % 4 == 0 {
            create.layers = 3;
        }
        v.push(Case { tree: tree.into_iter().collect(), create, by_dir: i % 3 == 0, steps, seed: rng.next() });
    }
    v
}

struct Env {
    mlar: PathBuf,
    sb: PathBuf,
    /// (private key file, public key file) generated for this case
    keys: Vec<(String, String)>,
    wrong: (String, String),
}

struct Out {
    code: Option<i32>,
    stdout: Vec<u8>,
    stderr: String,
}

fn run(env: &Env, args: &[String]) -> Out {
    let o = Command::new(&env.mlar).current_dir(&env.sb).args(args).output().expect("run mlar");
    Out { code: o.status.code(), stdout: o.stdout, stderr: String::from_utf8_lossy(&o.stderr).chars().take(400).collect() }
}

/// same, with bytes given on the standard input
fn run_with_stdin(env: &Env, args: &[String], input: &[u8]) -> Out {
    use std::io::Write as _;
    let mut ch = Command::new(&env.mlar).current_dir(&env.sb).args(args).stdin(std::process::Stdio::piped()).stdout(std::process::Stdio::piped()).stderr(std::process::Stdio::piped()).spawn().expect("run mlar");
    if let Some(mut si) = ch.stdin.take() {
        let _ = si.write_all(input);
    }
    let o = ch.wait_with_output().expect("wait mlar");
    Out { code: o.status.code(), stdout: o.stdout, stderr: String::from_utf8_lossy(&o.stderr).chars().take(400).collect() }
}

fn s(x: &str) -> String {
    x.to_string()
}

fn layer_args(o: &Opts, env: &Env) -> Vec<String> {
    let mut a = Vec::new();
    // layers must always be given explicitly: the default is compress + encrypt;
    // `-l` without value (followed by another option) means no layer
    if o.layers == 0 {
        a.push(s("-l"));
    }
    if o.layers & 2 != 0 {
        a.extend([s("-l"), s("compress")]);
    }
    if o.layers & 1 != 0 {
        a.extend([s("-l"), s("encrypt")]);
        for (_, p) in env.keys.iter().take(o.nkeys.max(1)) {
            a.extend([s("-p"), p.clone()]);
        }
    }
    if let Some(l) = o.level {
        // before a possible lone `-l`
        a.insert(0, l.to_string());
        a.insert(0, s("-q"));
    }
    a
}

fn key_args(o: &Opts, env: &Env, which: usize) -> Vec<String> {
    if o.layers & 1 != 0 {
        vec![s("-k"), env.keys[which % o.nkeys.max(1)].0.clone()]
    } else {
        vec![]
    }
}

type Violation = (String, Value);

/// all read-side commands on one archive must agree with the expected files
fn check_archive(ctx: &mut Ctx, env: &Env, arch: &str, o: &Opts, expected: &BTreeMap<String, Vec<u8>>, tag: &str, rng: &mut Rng) -> Result<(), Violation> {
    let ka = key_args(o, env, rng.usize_below(3));
    let with = |base: &[&str], extra: &[String]| -> Vec<String> {
        let mut a: Vec<String> = base.iter().map(|x| x.to_string()).collect();
        a.extend([s("-i"), s(arch)]);
        a.extend(ka.clone());
        a.extend(extra.iter().cloned());
        a
    };
    // list
    let r = run(env, &with(&["list"], &[]));
    let want: String = expected.keys().map(|n| format!("{n}\n")).collect();
    if r.code != Some(0) || String::from_utf8_lossy(&r.stdout) != want {
        return Err((format!("list-differs:{tag}"), json!({"exit": r.code, "stdout": String::from_utf8_lossy(&r.stdout).chars().take(300).collect::<String>(), "stderr": r.stderr})));
    }
    ctx.count("cmd:list");
    // list -vv : size and hash
    let r = run(env, &with(&["list", "-vv"], &[]));
    if r.code != Some(0) {
        return Err((format!("list-vv-failed:{tag}"), json!({"exit": r.code, "stderr": r.stderr})));
    }
    let text = String::from_utf8_lossy(&r.stdout).to_string();
    let lines: Vec<&str> = text.lines().collect();
    if lines.len() != expected.len() {
        return Err((format!("list-vv-differs:{tag}"), json!({"lines": lines.len(), "files": expected.len()})));
    }
    for (line, (name, data)) in lines.iter().zip(expected) {
        let ok = (|| {
            let rest = line.strip_prefix(name.as_str())?.strip_prefix(" - ")?;
            let (size, hash) = rest.rsplit_once(" (")?;
            let hash = hash.strip_suffix(')')?;
            if hash != hex::encode(model::fmt::sha256(data)) {
                return None;
            }
            let (num, unit) = size.split_once(' ')?;
            let mult: f64 = match unit {
                "B" => 1.0,
                "kB" => 1e3,
                "MB" => 1e6,
                "GB" => 1e9,
                _ => return None,
            };
            let val: f64 = num.parse().ok()?;
            let truth = data.len() as f64;
            let tol = if unit == "B" { 0.0 } else { 0.0051 * mult };
            if (val * mult - truth).abs() <= tol {
                Some(())
            } else {
                None
            }
        })();
        if ok.is_none() {
            return Err((format!("list-vv-size-or-hash:{tag}"), json!({"line": line.chars().take(200).collect::<String>(), "true_size": data.len(), "true_sha256": hex::encode(model::fmt::sha256(data))})));
        }
    }
    ctx.count("cmd:list-vv");
    // cat, one file at a time
    for (name, data) in expected {
        let r = run(env, &with(&["cat"], &[name.clone()]));
        if r.code != Some(0) || r.stdout != *data {
            return Err((format!("cat-differs:{tag}"), json!({"file": name, "exit": r.code, "got": r.stdout.len(), "expected": data.len(), "stderr": r.stderr})));
        }
    }
    ctx.count("cmd:cat");
    // extract, whole archive
    let compare_dir = |dir: &Path, only: Option<&String>| -> Result<(), String> {
        for (name, data) in expected {
            if only.is_some_and(|o| o != name) {
                continue;
            }
            match std::fs::read(dir.join(name)) {
                Ok(d) if d == *data => {}
                Ok(d) => return Err(format!("{name}: {} bytes instead of {}", d.len(), data.len())),
                Err(e) => return Err(format!("{name}: {e}")),
            }
        }
        Ok(())
    };
    let x1 = format!("x1-{}", rng.next());
    let r = run(env, &with(&["extract"], &[s("-o"), x1.clone()]));
    if r.code != Some(0) {
        return Err((format!("extract-failed:{tag}"), json!({"exit": r.code, "stderr": r.stderr})));
    }
    compare_dir(&env.sb.join(&x1), None).map_err(|e| (format!("extract-differs:{tag}"), json!({"what": e})))?;
    ctx.count("cmd:extract-all");
    // the same, into a directory that already holds older (longer) versions of the files
    let stale = |dir: &Path, only: Option<&String>| {
        for (name, data) in expected {
            if only.is_some_and(|o| o != name) {
                continue;
            }
            let p = dir.join(name);
            if let Some(parent) = p.parent() {
                let _ = std::fs::create_dir_all(parent);
            }
            let mut old = b"OLDER VERSION ".to_vec();
            old.extend_from_slice(data);
            old.extend_from_slice(&[0x5a; 77]);
            let _ = std::fs::write(&p, old);
        }
    };
    stale(&env.sb.join(&x1), None);
    let r = run(env, &with(&["extract"], &[s("-o"), x1.clone()]));
    if r.code != Some(0) {
        return Err((format!("extract-over-older-files-failed:{tag}"), json!({"exit": r.code, "stderr": r.stderr})));
    }
    compare_dir(&env.sb.join(&x1), None).map_err(|e| (format!("extract-over-older-files-differs:{tag}"), json!({"what": e})))?;
    ctx.count("cmd:extract-all-over-older-files");
    // extract, one listed name
    if let Some(name) = expected.keys().nth(rng.usize_below(expected.len().max(1))) {
        let x2 = format!("x2-{}", rng.next());
        if rng.chance(1, 2) {
            stale(&env.sb.join(&x2), Some(name));
            ctx.count("cmd:extract-listed-over-older-file");
        }
        let r = run(env, &with(&["extract"], &[s("-o"), x2.clone(), name.clone()]));
        if r.code != Some(0) {
            return Err((format!("extract-listed-failed:{tag}"), json!({"exit": r.code, "stderr": r.stderr})));
        }
        compare_dir(&env.sb.join(&x2), Some(name)).map_err(|e| (format!("extract-listed-differs:{tag}"), json!({"what": e})))?;
        ctx.count("cmd:extract-listed");
    }
    // to-tar
    let tarf = format!("t-{}.tar", rng.next());
    let r = run(env, &with(&["to-tar"], &[s("-o"), tarf.clone()]));
    if r.code != Some(0) {
        return Err((format!("to-tar-failed:{tag}"), json!({"exit": r.code, "stderr": r.stderr})));
    }
    let mut got: BTreeMap<String, Vec<u8>> = BTreeMap::new();
    let f = std::fs::File::open(env.sb.join(&tarf)).map_err(|e| (format!("to-tar-failed:{tag}"), json!({"error": e.to_string()})))?;
    let mut ar = tar::Archive::new(f);
    if let Ok(entries) = ar.entries() {
        for e in entries.flatten() {
            let mut e = e;
            let p = e.path().map(|p| p.to_string_lossy().to_string()).unwrap_or_default();
            let mut d = Vec::new();
            let _ = e.read_to_end(&mut d);
            got.insert(p, d);
        }
    }
    if got != *expected {
        return Err((format!("to-tar-differs:{tag}"), json!({"tar_entries": got.keys().take(8).collect::<Vec<_>>(), "expected": expected.keys().take(8).collect::<Vec<_>>()})));
    }
    ctx.count("cmd:to-tar");
    Ok(())
}

/// wrong key / no key / a key for an unencrypted archive: non-zero status, no output content
/// An unencrypted archive whose header still carries encryption parameters: the header of an
/// encrypted donor archive (same other layers, for key 0) with the ENCRYPT bit cleared, followed
/// by the body of `arch`. It is not encrypted, so a private key must be refused as for `arch`.
fn leftover_parameters_twin(env: &Env, arch: &str, o: &Opts, rng: &mut Rng) -> Option<String> {
    std::fs::write(env.sb.join("donor-input"), b"donor").ok()?;
    let donor = format!("donor-{}.mla", rng.next());
    let mut args = vec![s("create")];
    args.extend(layer_args(&Opts { layers: o.layers | 1, level: None, nkeys: 1 }, env));
    args.extend([s("-o"), donor.clone(), s("donor-input")]);
    if run(env, &args).code != Some(0) {
        return None;
    }
    let d = std::fs::read(env.sb.join(&donor)).ok()?;
    let a = std::fs::read(env.sb.join(arch)).ok()?;
    let dh = model::fmt::dec_header(&d).ok()?;
    let ah = model::fmt::dec_header(&a).ok()?;
    let mut forged = d[..dh.len].to_vec();
    *forged.get_mut(7)? &= !1;
    forged.extend_from_slice(&a[ah.len..]);
    let name = format!("leftover-{}.mla", rng.next());
    std::fs::write(env.sb.join(&name), forged).ok()?;
    Some(name)
}

fn check_key_clause(ctx: &mut Ctx, env: &Env, arch: &str, o: &Opts, first_file: Option<&String>, rng: &mut Rng) -> Result<(), Violation> {
    let mut variants: Vec<(&str, Vec<String>, String)> = if o.layers & 1 != 0 {
        vec![("wrong-key", vec![s("-k"), env.wrong.0.clone()], s(arch)), ("no-key", vec![], s(arch))]
    } else {
        vec![("key-for-unencrypted-archive", vec![s("-k"), env.keys[0].0.clone()], s(arch))]
    };
    if o.layers & 1 == 0 {
        if let Some(twin) = leftover_parameters_twin(env, arch, o, rng) {
            // sanity: without a key it reads like the original (otherwise the twin is not what it is meant to be)
            if run(env, &[s("list"), s("-i"), twin.clone()]).code == Some(0) {
                ctx.count("keyclause:unencrypted_archive_with_leftover_encryption_parameters");
                variants.push(("key-for-unencrypted-archive-with-leftover-parameters", vec![s("-k"), env.keys[0].0.clone()], twin));
            }
        }
    }
    for (label, ka, arch) in variants {
        let arch = arch.as_str();
        let outs = [format!("kc-{}.out", rng.next()), format!("kc-{}.dir", rng.next())];
        let mut cmds: Vec<(&str, Vec<String>, Option<String>)> = vec![
            ("list", vec![s("list"), s("-i"), s(arch)], None),
            ("extract", vec![s("extract"), s("-i"), s(arch), s("-o"), outs[1].clone()], Some(outs[1].clone())),
            ("to-tar", vec![s("to-tar"), s("-i"), s(arch), s("-o"), outs[0].clone()], Some(outs[0].clone())),
            ("convert", vec![s("convert"), s("-i"), s(arch), s("-o"), outs[0].clone(), s("-l"), s("compress")], Some(outs[0].clone())),
            ("repair", vec![s("repair"), s("-i"), s(arch), s("-o"), outs[0].clone(), s("-l"), s("compress")], Some(outs[0].clone())),
        ];
        if let Some(f) = first_file {
            cmds.push(("cat", vec![s("cat"), s("-i"), s(arch), s("-o"), outs[0].clone(), f.clone()], Some(outs[0].clone())));
            cmds.push(("extract-listed", vec![s("extract"), s("-i"), s(arch), s("-o"), outs[1].clone(), f.clone()], Some(outs[1].clone())));
        }
        for (cname, mut args, outp) in cmds {
            // keys go right after the input
            let at = 3.min(args.len());
            for (j, a) in ka.iter().enumerate() {
                args.insert(at + j, a.clone());
            }
            if let Some(p) = &outp {
                let _ = std::fs::remove_file(env.sb.join(p));
                let _ = std::fs::remove_dir_all(env.sb.join(p));
            }
            let r = run(env, &args);
            ctx.count(&format!("keyclause:{label}:{cname}"));
            let mut content = 0u64;
            if let Some(p) = &outp {
                let full = env.sb.join(p);
                if full.is_dir() {
                    fn total(d: &Path) -> u64 {
                        std::fs::read_dir(d).map(|rd| rd.flatten().map(|e| if e.path().is_dir() { total(&e.path()) } else { e.metadata().map(|m| m.len()).unwrap_or(0) }).sum()).unwrap_or(0)
                    }
                    content = total(&full);
                } else if let Ok(m) = std::fs::metadata(&full) {
                    content = m.len();
                }
            }
            if r.code == Some(0) || content > 0 {
                return Err((format!("key-clause:{label}:{cname}"), json!({"exit": r.code, "output_bytes": content, "stderr": r.stderr})));
            }
        }
    }
    Ok(())
}

pub fn run_case(ctx: &mut Ctx, c: &Case) {
    let mlar = PathBuf::from(std::env::var("VERIF_MLAR").unwrap_or_else(|_| "/verif/target/repo-bin/debug/mlar".into()));
    let base = PathBuf::from(ctx.out_dir.clone().unwrap_or_else(|| "/verif/scratch".into()));
    let sb = base.join(format!("c17-{}-{}", std::process::id(), ctx.case_index));
    let _ = std::fs::remove_dir_all(&sb);
    std::fs::create_dir_all(sb.join("in")).unwrap();
    ctx.eval(model::prng::fnv(format!("{c:?}").as_bytes()), c.tree.len() >= 2 || !c.steps.is_empty());
    ctx.sample(|| json!({"case": c}));
    let mut rng = Rng::new(c.seed);
    // input tree
    let mut expected: BTreeMap<String, Vec<u8>> = BTreeMap::new();
    for (rel, size) in &c.tree {
        let p = sb.join("in").join(rel);
        std::fs::create_dir_all(p.parent().unwrap()).unwrap();
        let data = rng.bytes(*size as usize);
        std::fs::write(&p, &data).unwrap();
        if rel.len() + 3 > 100 {
            ctx.count("name_longer_than_100_bytes");
        }
        expected.insert(format!("in/{rel}"), data);
    }
    // keys: generated by the tool itself, plus the repository's Ed25519 sample pair
    let mut env = Env { mlar, sb: sb.clone(), keys: vec![], wrong: (String::new(), String::new()) };
    for i in 0..4 {
        let r = run(&env, &[s("keygen"), format!("--seed=c17-{}-{i}", c.seed), format!("key{i}")]);
        if r.code != Some(0) {
            eprintln!("HARNESS-ERROR keygen failed: {}", r.stderr);
            std::process::exit(2);
        }
        if i < 3 {
            env.keys.push((format!("key{i}"), format!("key{i}.pub")));
        } else {
            env.wrong = (format!("key{i}"), format!("key{i}.pub"));
        }
    }
    let repo = std::env::var("VERIF_REPO_DIR").unwrap_or_else(|_| "/repo".into());
    if c.seed % 3 == 0 && Path::new(&format!("{repo}/samples/test_ed25519.pem")).exists() {
        env.keys[1] = (format!("{repo}/samples/test_ed25519.pem"), format!("{repo}/samples/test_ed25519_pub.pem"));
        ctx.count("ed25519_sample_key_used");
    }
    let scen = || json!({"case": c, "k": "prod"});
    let result: Result<(), Violation> = (|| {
        // create
        let mut args = vec![s("create")];
        args.extend(layer_args(&c.create, &env));
        args.extend([s("-o"), s("a0.mla")]);
        // the file list on the standard input (`-`), one path per line, for one case in four given by names
        let list_on_stdin = !c.by_dir && c.seed % 4 == 1 && expected.keys().all(|n| !n.contains('\n'));
        let r = if c.by_dir {
            args.push(s("in"));
            run(&env, &args)
        } else if list_on_stdin {
            ctx.count("create:file_list_on_stdin");
            args.push(s("-"));
            let list: String = expected.keys().map(|n| format!("{n}\n")).collect();
            run_with_stdin(&env, &args, list.as_bytes())
        } else {
            args.extend(expected.keys().cloned());
            run(&env, &args)
        };
        ctx.count(&format!("create:layers{}", c.create.layers));
        if r.code != Some(0) {
            return Err((format!("create-failed:layers{}", c.create.layers), json!({"exit": r.code, "stderr": r.stderr})));
        }
        let mut cur = s("a0.mla");
        let mut cur_opts = c.create.clone();
        check_archive(ctx, &env, &cur, &cur_opts, &expected, "after-create", &mut rng)?;
        check_key_clause(ctx, &env, &cur, &cur_opts, expected.keys().next(), &mut rng)?;
        for (si, st) in c.steps.iter().enumerate() {
            let (cmd, o, tag) = match st {
                Step::Convert(o) => ("convert", o, "after-convert"),
                Step::Repair(o) => ("repair", o, "after-repair"),
            };
            let next = format!("a{}.mla", si + 1);
            let mut args = vec![s(cmd), s("-i"), cur.clone()];
            args.extend(key_args(&cur_opts, &env, si));
            args.extend(layer_args(o, &env));
            // one pipeline in three sends the produced archive to the standard output (`-o -`)
            let to_stdout = (c.seed / 4 + si as u64) % 3 == 0;
            args.extend([s("-o"), if to_stdout { s("-") } else { next.clone() }]);
            let r = run(&env, &args);
            if to_stdout {
                ctx.count("step:output_on_stdout");
                let _ = std::fs::write(env.sb.join(&next), &r.stdout);
            }
            ctx.count(&format!("step:{cmd}"));
            if r.code != Some(0) {
                return Err((format!("{cmd}-failed"), json!({"exit": r.code, "stderr": r.stderr, "from_layers": cur_opts.layers, "to_layers": o.layers})));
            }
            cur = next;
            cur_opts = o.clone();
            check_archive(ctx, &env, &cur, &cur_opts, &expected, tag, &mut rng)?;
        }
        Ok(())
    })();
    match result {
        Ok(()) => ctx.count("held"),
        Err((sig, detail)) => ctx.violation("C17", &sig, scen(), detail),
    }
    let _ = std::fs::remove_dir_all(&sb);
}

pub fn run_all(ctx: &mut Ctx) {
    let cs = cases(ctx);
    for (i, c) in cs.iter().enumerate() {
        if !ctx.mine(i as u64) {
            continue;
        }
        if !ctx.time_left() {
            break;
        }
        if ctx.journal(&json!({"prop": "C17", "scenario": {"case": c, "k": "prod"}})) {
            run_case(ctx, c);
        }
    }
}

pub fn replay(ctx: &mut Ctx, scenario: &Value) -> Result<(), String> {
    let c: Case = serde_json::from_value(scenario["case"].clone()).map_err(|e| e.to_string())?;
    run_case(ctx, &c);
    Ok(())
}
