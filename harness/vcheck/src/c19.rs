//! C19 — seeded key generation and key derivation follow the documented algorithm.
//! The README algorithm is re-implemented here (hand-written ChaCha20 block
//! function, HMAC/HKDF over SHA-512) and compared with the files written by
//! the `mlar` binary built from the tree.
use crate::c18::{pem, PRIV_ED, PRIV_X, PUB_X};
use crate::ctx::Ctx;
use model::prng::Rng;
use serde::{Deserialize, Serialize};
use serde_json::{json, Value};
use sha2::{Digest, Sha512};
use std::path::{Path, PathBuf};
use std::process::Command;
use x25519_dalek::{PublicKey, StaticSecret};

pub fn x25519_base(sk: &[u8; 32]) -> [u8; 32] {
    *PublicKey::from(&StaticSecret::from(*sk)).as_bytes()
}

pub fn clamp(mut k: [u8; 32]) -> [u8; 32] {
    k[0] &= 248;
    k[31] &= 127;
    k[31] |= 64;
    k
}

/// ChaCha20 block function (RFC 8439 layout; 64-bit block counter = 0, 64-bit stream id = 0)
pub fn chacha20_block0(key: &[u8; 32]) -> [u8; 64] {
    let mut s = [0u32; 16];
    s[0] = 0x6170_7865;
    s[1] = 0x3320_646e;
    s[2] = 0x7962_2d32;
    s[3] = 0x6b20_6574;
    for i in 0..8 {
        s[4 + i] = u32::from_le_bytes(key[4 * i..4 * i + 4].try_into().unwrap());
    }
    // s[12..16] = counter (0) and nonce / stream (0)
    let init = s;
    fn qr(s: &mut [u32; 16], a: usize, b: usize, c: usize, d: usize) {
        s[a] = s[a].wrapping_add(s[b]);
        s[d] = (s[d] ^ s[a]).rotate_left(16);
        s[c] = s[c].wrapping_add(s[d]);
        s[b] = (s[b] ^ s[c]).rotate_left(12);
        s[a] = s[a].wrapping_add(s[b]);
        s[d] = (s[d] ^ s[a]).rotate_left(8);
        s[c] = s[c].wrapping_add(s[d]);
        s[b] = (s[b] ^ s[c]).rotate_left(7);
    }
    for _ in 0..10 {
        qr(&mut s, 0, 4, 8, 12);
        qr(&mut s, 1, 5, 9, 13);
        qr(&mut s, 2, 6, 10, 14);
        qr(&mut s, 3, 7, 11, 15);
        qr(&mut s, 0, 5, 10, 15);
        qr(&mut s, 1, 6, 11, 12);
        qr(&mut s, 2, 7, 8, 13);
        qr(&mut s, 3, 4, 9, 14);
    }
    let mut out = [0u8; 64];
    for i in 0..16 {
        out[4 * i..4 * i + 4].copy_from_slice(&s[i].wrapping_add(init[i]).to_le_bytes());
    }
    out
}

fn hmac_sha512(key: &[u8], msg: &[u8]) -> [u8; 64] {
    let mut k = [0u8; 128];
    if key.len() > 128 {
        k[..64].copy_from_slice(&Sha512::digest(key));
    } else {
        k[..key.len()].copy_from_slice(key);
    }
    let mut ipad = [0x36u8; 128];
    let mut opad = [0x5cu8; 128];
    for i in 0..128 {
        ipad[i] ^= k[i];
        opad[i] ^= k[i];
    }
    let mut h = Sha512::new();
    h.update(ipad);
    h.update(msg);
    let inner = h.finalize();
    let mut h = Sha512::new();
    h.update(opad);
    h.update(inner);
    h.finalize().into()
}

/// HKDF-SHA512 (RFC 5869), 32 bytes of output
pub fn hkdf_sha512_32(salt: &[u8], ikm: &[u8], info: &[u8]) -> [u8; 32] {
    let prk = hmac_sha512(salt, ikm);
    let mut m = info.to_vec();
    m.push(1);
    let t1 = hmac_sha512(&prk, &m);
    t1[..32].try_into().unwrap()
}

/// README: SHA512(seed bytes)[0..32] seeds a 20-round ChaCha; its first 32 bytes are the secret
pub fn seeded_secret(seed: &str) -> [u8; 32] {
    let prng_seed: [u8; 32] = Sha512::digest(seed.as_bytes())[..32].try_into().unwrap();
    chacha20_block0(&prng_seed)[..32].try_into().unwrap()
}

/// README: HKDF-SHA512(salt="PATH DERIVATION", ikm=parent secret, info=path) -> ChaCha seed -> secret
pub fn derive_step(parent_ikm: &[u8; 32], path: &str) -> [u8; 32] {
    let seed = hkdf_sha512_32(b"PATH DERIVATION", parent_ikm, path.as_bytes());
    chacha20_block0(&seed)[..32].try_into().unwrap()
}

#[derive(Clone, Debug, Serialize, Deserialize)]
pub enum Case {
    Keygen { seed: String },
    /// parent given by a keygen seed (X25519, DER or PEM) or an Ed25519 seed; derivation along `paths`
    Derive { parent_seed: String, parent_form: u8, paths: Vec<String> },
}

fn strings(rng: &mut Rng) -> String {
    match rng.below(13) {
        // separators an argument parser may treat as list / key-value delimiters
        12 => (*rng.pick(&["a,b", "ou=backup,dc=example,dc=org", ",", "a,", ",b", "x;y", "k:v", "a b,c d", "p1|p2", "1,2,3", "a,,b", "path/with,comma"])).to_string(),
        8 => (*rng.pick(&["1234", "00", "cafe", "DEADBEEF", "20240131", "0", "0x1234", "ff", "AbCd", "1e10", "true", "null"])).to_string(),
        9 => format!("{:016x}{:016x}{:016x}{:016x}", rng.next(), rng.next(), rng.next(), rng.next()),
        10 => (*rng.pick(&[" ", "  leading and trailing  ", "\t", "a\nb", "%s%n", "$HOME", "~", ".", "..", "/", "aGVsbG8=", "a=b", "--", "-"])).to_string(),
        11 => format!("{}", rng.below(1_000_000)),
        0 => String::new(),
        1 => "TEST SEED".into(),
        2 => "App X".into(),
        3 => format!("é日本語-{}-שלום", rng.below(1000)),
        4 => "a".repeat(10_000),
        5 => format!("seed with spaces and \"quotes\" {}", rng.below(100)),
        6 => format!("-leading-dash-{}", rng.below(100)),
        _ => format!("s{:x}", rng.next()),
    }
}

pub fn cases(ctx: &Ctx) -> Vec<Case> {
    let mut v = Vec::new();
    if !ctx.k.is_prod() {
        return v;
    }
    let mut rng = Rng::derive(ctx.seed, &[0xC19]);
    let n = if ctx.quick() { 600 } else { 60000 };
    for s in ["", "TEST SEED", "é日本語", &"long".repeat(2500)] {
        v.push(Case::Keygen { seed: s.to_string() });
    }
    for _ in 0..n {
        v.push(Case::Keygen { seed: strings(&mut rng) });
        let np = 1 + rng.usize_below(5);
        let mut paths: Vec<String> = (0..np).map(|_| strings(&mut rng)).collect();
        if rng.chance(1, 4) && np >= 2 {
            paths[1] = paths[0].clone(); // repeated path
        }
        v.push(Case::Derive { parent_seed: strings(&mut rng), parent_form: rng.below(3) as u8, paths });
    }
    v
}

fn mlar() -> PathBuf {
    PathBuf::from(std::env::var("VERIF_MLAR").unwrap_or_else(|_| "/verif/target/repo-bin/debug/mlar".into()))
}

fn run_mlar(dir: &Path, args: &[&str]) -> Result<(), String> {
    let out = Command::new(mlar()).current_dir(dir).args(args).output().map_err(|e| format!("cannot run mlar: {e}"))?;
    if !out.status.success() {
        return Err(format!("mlar {:?} exited with {:?}: {}", &args[..args.len().min(3)], out.status.code(), String::from_utf8_lossy(&out.stderr).chars().take(300).collect::<String>()));
    }
    Ok(())
}

/// parse the two files written by keygen / keyderive: (stored private bytes, public key bytes)
fn read_pair(dir: &Path, base: &str) -> Result<([u8; 32], [u8; 32], Vec<u8>, String), String> {
    let priv_der = std::fs::read(dir.join(base)).map_err(|e| format!("private file: {e}"))?;
    let pub_pem = std::fs::read_to_string(dir.join(format!("{base}.pub"))).map_err(|e| format!("public file: {e}"))?;
    if priv_der.len() != 48 || &priv_der[..16] != PRIV_X {
        return Err(format!("private file is not the 48-byte X25519 DER ({} bytes)", priv_der.len()));
    }
    let body: String = pub_pem.lines().filter(|l| !l.starts_with("-----")).collect();
    let der = model::anchor::b64(&body);
    if !pub_pem.starts_with("-----BEGIN PUBLIC KEY-----") || der.len() != 44 || &der[..12] != PUB_X {
        return Err("public file is not a PEM X25519 public key".into());
    }
    Ok((priv_der[16..].try_into().unwrap(), der[12..].try_into().unwrap(), priv_der, pub_pem))
}

/// older content at an output path: a PEM private key (119 bytes) or arbitrary longer bytes, and a longer public file
fn preexisting(dir: &Path, base: &str, salt: u64) {
    let mut rng = Rng::new(salt ^ 0x01D);
    let old_priv: Vec<u8> = if rng.chance(1, 2) {
        let mut der = PRIV_X.to_vec();
        der.extend_from_slice(&rng.array32());
        pem("PRIVATE KEY", &der, 64, "\n", true).into_bytes()
    } else {
        let n = 49 + rng.usize_below(300);
        rng.bytes(n)
    };
    let _ = std::fs::write(dir.join(base), old_priv);
    let mut old_pub = String::from("-----BEGIN PUBLIC KEY-----\n");
    for _ in 0..1 + rng.usize_below(4) {
        old_pub.push_str("T0xEIE9MRCBPTEQgT0xEIE9MRCBPTEQgT0xEIE9MRCBPTEQgT0xEIE9MRCBPTEQg\n");
    }
    old_pub.push_str("-----END PUBLIC KEY-----\n");
    let _ = std::fs::write(dir.join(format!("{base}.pub")), old_pub);
}

fn check_pair(stored: &[u8; 32], public: &[u8; 32], expected_secret: &[u8; 32]) -> Result<(), String> {
    if stored != expected_secret && *stored != clamp(*expected_secret) {
        return Err("private key differs from the documented algorithm".into());
    }
    if *public != x25519_base(&clamp(*expected_secret)) {
        return Err("public file does not match the private key of the documented algorithm".into());
    }
    if *public != x25519_base(stored) {
        return Err("public file does not match the private file".into());
    }
    Ok(())
}

pub fn run_case(ctx: &mut Ctx, c: &Case) {
    let scen = || json!({"case": c, "k": "prod"});
    let dir = PathBuf::from(format!("{}/c19-{}-{}", ctx.out_dir.clone().unwrap_or_else(|| "/verif/scratch".into()), std::process::id(), ctx.case_index));
    let _ = std::fs::create_dir_all(&dir);
    let r: Result<(), String> = (|| match c {
        Case::Keygen { seed } => {
            ctx.eval(model::prng::fnv(seed.as_bytes()) ^ 1, true);
            ctx.count("keygen");
            let sarg = format!("--seed={seed}");
            run_mlar(&dir, &["keygen", &sarg, "k1"])?;
            // the second output path already holds older, longer files
            preexisting(&dir, "k2", model::prng::fnv(seed.as_bytes()));
            run_mlar(&dir, &["keygen", &sarg, "k2"])?;
            let (stored, public, der1, pem1) = read_pair(&dir, "k1")?;
            let (_, _, der2, pem2) = read_pair(&dir, "k2")?;
            if der1 != der2 || pem1 != pem2 {
                return Err("same seed gives different key files".into());
            }
            check_pair(&stored, &public, &seeded_secret(seed)).map_err(|e| format!("keygen: {e}"))
        }
        Case::Derive { parent_seed, parent_form, paths } => {
            ctx.eval(model::prng::fnv(format!("{parent_seed}|{parent_form}|{paths:?}").as_bytes()), true);
            ctx.count(&format!("keyderive:paths{}", paths.len()));
            // parent key file
            let (parent_stored, parent_file): ([u8; 32], &str) = match parent_form {
                0 | 1 => {
                    run_mlar(&dir, &["keygen", &format!("--seed={parent_seed}"), "parent"])?;
                    let (stored, _, der, _) = read_pair(&dir, "parent")?;
                    if *parent_form == 1 {
                        std::fs::write(dir.join("parent.pem"), pem("PRIVATE KEY", &der, 64, "\n", true)).map_err(|e| e.to_string())?;
                        (stored, "parent.pem")
                    } else {
                        (stored, "parent")
                    }
                }
                _ => {
                    // Ed25519 parent: secret = SHA-512(seed)[..32]
                    let sd: [u8; 32] = Sha512::digest(parent_seed.as_bytes())[..32].try_into().unwrap();
                    let mut der = PRIV_ED.to_vec();
                    der.extend_from_slice(&sd);
                    std::fs::write(dir.join("parent_ed"), &der).map_err(|e| e.to_string())?;
                    let h: [u8; 32] = Sha512::digest(sd)[..32].try_into().unwrap();
                    (h, "parent_ed")
                }
            };
            let pargs: Vec<String> = paths.iter().map(|p| format!("--path={p}")).collect();
            let mut args: Vec<&str> = vec!["keyderive", parent_file, "child"];
            for p in &pargs {
                args.push(p);
            }
            run_mlar(&dir, &args)?;
            preexisting(&dir, "child_again", model::prng::fnv(parent_seed.as_bytes()));
            run_mlar(&dir, &{
                let mut a = args.clone();
                a[2] = "child_again";
                a
            })?;
            let (stored, public, der1, pem1) = read_pair(&dir, "child")?;
            let (_, _, der2, pem2) = read_pair(&dir, "child_again")?;
            if der1 != der2 || pem1 != pem2 {
                return Err("keyderive: same inputs give different key files".into());
            }
            // expected: both readings of "the secret of the parent" (stored bytes / clamped bytes) are accepted,
            // but ONE reading has to be used throughout: along the steps of one derivation, and for parents of
            // either key type (a tree that clamps the secrets of some parents only makes the keys derived
            // from them by every released version unrecoverable). mask: bit 0 = a step used the stored
            // bytes, bit 1 = a step used the clamped bytes (steps where both are equal set nothing)
            let mut candidates: Vec<([u8; 32], u8)> = vec![(parent_stored, 0)];
            for p in paths {
                let mut next: Vec<([u8; 32], u8)> = Vec::new();
                for (ikm, mask) in &candidates {
                    for (bit, ik) in [(1u8, *ikm), (2u8, clamp(*ikm))] {
                        let eff = if clamp(*ikm) == *ikm { 0 } else { bit };
                        let s = derive_step(&ik, p);
                        if !next.iter().any(|(x, m)| *x == s && *m == (mask | eff)) {
                            next.push((s, mask | eff));
                        }
                    }
                }
                candidates = next;
                if candidates.len() > 64 {
                    candidates.truncate(64);
                }
            }
            let matching: Vec<&([u8; 32], u8)> = candidates.iter().filter(|(s, _)| *s == stored || clamp(*s) == stored).collect();
            let Some((exp, mask)) = matching.iter().find(|(_, m)| *m != 3).or(matching.first()).map(|x| (&x.0, x.1)) else {
                return Err("keyderive: derived private key differs from HKDF-SHA512(salt=\"PATH DERIVATION\", ikm=parent secret, info=path) -> ChaCha20, applied path by path".into());
            };
            let observed_reading = match mask {
                0 => "indistinguishable",
                1 => "stored",
                2 => "clamped",
                _ => "mixed",
            };
            if mask == 3 {
                return Err("keyderive: parent-secret readings mixed along one derivation (stored bytes at some steps, clamped bytes at others)".into());
            }
            if *parent_form >= 2 && (mask == 1 || mask == 2) {
                // the reading used for an X25519 parent, observed in the same case
                run_mlar(&dir, &["keygen", &format!("--seed={parent_seed}|x"), "refparent"])?;
                run_mlar(&dir, &["keyderive", "refparent", "refchild", "--path=r"])?;
                let (rp, _, _, _) = read_pair(&dir, "refparent")?;
                let (rc, _, _, _) = read_pair(&dir, "refchild")?;
                if clamp(rp) != rp {
                    let a = derive_step(&rp, "r");
                    let b = derive_step(&clamp(rp), "r");
                    let xmask = if a == rc || clamp(a) == rc { 1 } else if b == rc || clamp(b) == rc { 2 } else { 0 };
                    if xmask != 0 && xmask != mask {
                        return Err(format!("keyderive: parent-secret reading depends on the key type of the parent (Ed25519 parent: {observed_reading} bytes, X25519 parent: {} bytes)", if xmask == 1 { "stored" } else { "clamped" }));
                    }
                    if xmask != 0 {
                        ctx.count("keyderive:reading_compared_between_ed25519_and_x25519_parents");
                    }
                }
            }
            ctx.count(&format!("keyderive:ikm_reading:{observed_reading}"));
            check_pair(&stored, &public, exp).map_err(|e| format!("keyderive: {e}"))?;
            // composition: derive(p1..pn) == derive(derive(p1..pn-1), pn)
            if paths.len() >= 2 {
                let mut a: Vec<&str> = vec!["keyderive", parent_file, "mid"];
                for p in &pargs[..pargs.len() - 1] {
                    a.push(p);
                }
                run_mlar(&dir, &a)?;
                run_mlar(&dir, &["keyderive", "mid", "composed", &pargs[pargs.len() - 1]])?;
                let (_, _, der3, pem3) = read_pair(&dir, "composed")?;
                if der3 != der1 || pem3 != pem1 {
                    return Err("keyderive: deriving along (p1..pn) differs from deriving along p1..pn-1 and then pn".into());
                }
                ctx.count("keyderive:composition_checked");
            }
            Ok(())
        }
    })();
    let _ = std::fs::remove_dir_all(&dir);
    ctx.sample(|| json!({"case": match c { Case::Keygen { seed } => json!({"keygen_seed": seed.chars().take(40).collect::<String>()}), Case::Derive { paths, parent_form, .. } => json!({"derive_paths": paths.iter().map(|p| p.chars().take(20).collect::<String>()).collect::<Vec<_>>(), "parent_form": parent_form}) }}));
    match r {
        Ok(()) => ctx.count("held"),
        Err(e) if e.starts_with("cannot run mlar") => {
            eprintln!("HARNESS-ERROR {e}");
            std::process::exit(2);
        }
        Err(e) => {
            let cls: String = e.split(' ').take(5).collect::<Vec<_>>().join("-").chars().filter(|c| c.is_ascii_alphanumeric() || *c == '-' || *c == ':').collect();
            ctx.violation("C19", &cls, scen(), json!({"message": e}));
        }
    }
}

pub fn run(ctx: &mut Ctx) {
    // known answer for the hand-written pieces: the repository pins `keygen --seed "TEST SEED"` in its suite;
    // here the ChaCha20 block function is checked against the RFC 8439 section 2.3.2 style zero-key vector
    let zero = chacha20_block0(&[0u8; 32]);
    if hex::encode(&zero[..16]) != "76b8e0ada0f13d90405d6ae55386bd28" {
        eprintln!("HARNESS-ERROR hand-written ChaCha20 does not reproduce the zero-key test vector");
        std::process::exit(2);
    }
    let cs = cases(ctx);
    for (i, c) in cs.iter().enumerate() {
        if !ctx.mine(i as u64) {
            continue;
        }
        if !ctx.time_left() {
            break;
        }
        if ctx.journal(&json!({"prop": "C19", "scenario": {"case": c, "k": "prod"}})) {
            run_case(ctx, c);
        }
    }
}

pub fn replay(ctx: &mut Ctx, scenario: &Value) -> Result<(), String> {
    let c: Case = serde_json::from_value(scenario["case"].clone()).map_err(|e| e.to_string())?;
    run_case(ctx, &c);
    Ok(())
}
