//! Steering a data-dependent quantity (a compressed size, the length of a snapshot) onto an
//! exact residue, by adjusting one size of a program and observing the real writer's output.
//! Incompressible bytes cost about one compressed byte each, so a few corrections converge.
use crate::drv::{self, Built, Sched};
use model::consts::K;
use model::prog::Program;

/// `mk(x)` builds the program for the adjustable size `x`; `obs` measures the built archive.
/// `slope` is +1 when a larger `x` makes the observed quantity larger, -1 otherwise.
pub fn tune(
    mk: &dyn Fn(i64) -> Program,
    k: &K,
    start: i64,
    modulus: i64,
    want: i64,
    slope: i64,
    obs: &dyn Fn(&Built) -> Option<i64>,
    iters: usize,
) -> Option<(Program, Built)> {
    let mut x = start;
    let want = want.rem_euclid(modulus);
    for _ in 0..iters {
        let p = mk(x);
        let b = drv::build(&p, k, Sched::All).ok()?;
        let have = obs(&b)?.rem_euclid(modulus);
        if have == want {
            return Some((p, b));
        }
        let mut step = (want - have).rem_euclid(modulus);
        if step > modulus / 2 {
            step -= modulus;
        }
        x += slope * step;
        if x <= 0 {
            x += modulus;
        }
    }
    None
}
