//! C04 — default (authenticated) repair only outputs authenticated, contiguous data.
use crate::ctx::{guarded, Ctx};
use crate::drv::{self, Mode, Sched};
use crate::gen;
use crate::sweep::{self, Prepared};
use crate::xlate;
use model::consts::{Sz, K};
use model::fmt;
use model::prng::Rng;
use model::prog::*;
use serde::{Deserialize, Serialize};
use serde_json::{json, Value};
use std::collections::BTreeMap;

#[derive(Clone, Copy, Debug, Serialize, Deserialize, PartialEq, Eq, Hash)]
pub enum FaultKind {
    FlipData,
    FlipTag,
    CutIn,
    /// truncation exactly in front of chunk k (the stream ends right after the tag of chunk k-1)
    CutBefore,
}

#[derive(Clone, Copy, Debug, Serialize, Deserialize, PartialEq, Eq, Hash)]
pub struct Fault {
    pub kind: FaultKind,
    /// chunk index; negative = counted from the last chunk (-1 = last)
    pub chunk: i64,
    /// offset inside the chunk payload / tag; negative = from its end
    pub off: i64,
    pub bit: u8,
}

#[derive(Clone, Debug, Serialize, Deserialize)]
pub struct Case {
    pub prog: Program,
    pub faults: Vec<Fault>,
}

/// One file whose content blocks each fill exactly one encryption chunk, so that a
/// content-block header starts at the first byte of every chunk after the first
pub fn aligned_program(k: &K, layers: u8, npieces: usize, piece: Sz, seed: u64) -> Option<Program> {
    let mut ops = vec![Op::Start(0)];
    for _ in 0..npieces {
        ops.push(Op::Append(0, piece));
    }
    ops.push(Op::End(0));
    ops.push(Op::Finalize);
    let p = Program { layers, level: 1, nrecip: 1, files: vec![FileSpec { name: NameKind::Plain(0), data: DataKind::Random }], ops, seed };
    // first piece: ends exactly on the first chunk edge
    gen::with_size_at(p, k, 0, "piece_end", Sz::new(0, 1, 0))
}

/// Adversarial content: the data of a content block starts exactly on a chunk edge and is made
/// of 64-byte units that each parse as a valid FileContent block of the same file, so whatever
/// chunk-aligned position a reader resumes at after a failed chunk, it finds valid blocks
pub fn adversarial_program(k: &K, layers: u8, nchunks: i64, seed: u64) -> Option<Program> {
    let p = Program {
        layers,
        level: 1,
        nrecip: 1,
        files: vec![FileSpec { name: NameKind::Plain(0), data: DataKind::Random }, FileSpec { name: NameKind::Plain(1), data: DataKind::Tiles(1) }],
        ops: vec![Op::Start(0), Op::Start(1), Op::Append(0, Sz::lit(1)), Op::Append(1, Sz::new(0, nchunks, 0)), Op::End(1), Op::End(0), Op::Finalize],
        seed,
    };
    // the content header of the tiled piece ends on the first chunk edge
    gen::with_size_at(p, k, 0, "content_hdr", Sz::new(0, 1, -17))
}

fn faults_for_all_chunks(nchunks: usize, offs: &[i64]) -> Vec<Fault> {
    let mut v = Vec::new();
    for c in 0..nchunks as i64 {
        for &off in offs {
            v.push(Fault { kind: FaultKind::FlipData, chunk: c, off, bit: (off.unsigned_abs() % 8) as u8 });
        }
        v.push(Fault { kind: FaultKind::FlipTag, chunk: c, off: 0, bit: 0 });
        v.push(Fault { kind: FaultKind::FlipTag, chunk: c, off: -1, bit: 7 });
        v.push(Fault { kind: FaultKind::CutIn, chunk: c, off: 1, bit: 0 });
        v.push(Fault { kind: FaultKind::CutIn, chunk: c, off: -1, bit: 0 });
        v.push(Fault { kind: FaultKind::CutIn, chunk: c, off: 40, bit: 0 });
        if c > 0 {
            v.push(Fault { kind: FaultKind::CutBefore, chunk: c, off: 0, bit: 0 });
        }
    }
    v
}

pub fn cases(ctx: &Ctx) -> Vec<Case> {
    let k = ctx.k;
    let mut rng = Rng::derive(ctx.seed, &[0xC04]);
    let mut v = Vec::new();
    let est_chunks = |p: &Program| -> usize { (layout(p, &k).stream_len / k.chunk) as usize + 1 };
    if !k.is_prod() {
        // uniform piece sizes 1..2*CHUNK, 12 pieces: every alignment of block headers w.r.t. chunk edges
        let step = if ctx.quick() { 3 } else { 1 };
        for s in (1..=2 * k.chunk as i64).step_by(step) {
            let mut ops = vec![Op::Start(0)];
            for _ in 0..12 {
                ops.push(Op::Append(0, Sz::from_concrete(s as u64, &k)));
            }
            ops.push(Op::End(0));
            ops.push(Op::Finalize);
            let p = Program { layers: 1, level: 1, nrecip: 1, files: vec![FileSpec { name: NameKind::Plain(0), data: DataKind::Random }], ops, seed: ctx.seed ^ s as u64 };
            let n = est_chunks(&p);
            v.push(Case { prog: p, faults: faults_for_all_chunks(n, &[0, 17, -1]) });
        }
        // exact alignment, 2..12 chunks
        for np in 2..=12 {
            if let Some(p) = aligned_program(&k, 1, np, Sz::new(0, 1, -17), ctx.seed ^ np as u64) {
                let n = est_chunks(&p);
                v.push(Case { prog: p, faults: faults_for_all_chunks(n, &[0, 1, 16, 17, 18, -1]) });
            }
        }
        for nch in 2..=8 {
            if let Some(p) = adversarial_program(&k, 1, nch, ctx.seed ^ 0xAD ^ nch as u64) {
                let n = est_chunks(&p);
                v.push(Case { prog: p, faults: faults_for_all_chunks(n, &[0, 1, 17, -1]) });
            }
        }
        // interleaved files and compression
        let n = if ctx.quick() { 60 } else { 3000 };
        let mut sizes = gen::small_sizes();
        sizes.extend([Sz::new(0, 1, -17), Sz::new(0, 1, 0), Sz::new(0, 2, 3), Sz::new(0, 3, -17), Sz::new(1, 0, 5)]);
        for i in 0..n {
            let layers = if i % 2 == 0 { 1 } else { 3 };
            let nfiles = 1 + rng.usize_below(3);
            let p = random_program(&mut rng, layers, 1, nfiles, 4, &sizes, false);
            let nch = est_chunks(&p);
            v.push(Case { prog: p, faults: faults_for_all_chunks(nch, &[0, 5, -1]) });
        }
    } else {
        for np in 3..=(if ctx.quick() { 4 } else { 6 }) {
            if let Some(p) = aligned_program(&k, 1, np, Sz::new(0, 1, -17), ctx.seed ^ np as u64) {
                let n = est_chunks(&p);
                v.push(Case { prog: p, faults: faults_for_all_chunks(n, &[0, 17, 4096, -1]) });
            }
        }
        for nch in [3i64, 5] {
            if let Some(p) = adversarial_program(&k, 1, nch, ctx.seed ^ 0xAD ^ nch as u64) {
                let n = est_chunks(&p);
                v.push(Case { prog: p, faults: faults_for_all_chunks(n, &[0, 17, -1]) });
            }
        }
        // interleaved, unaligned
        let sizes = gen::chunk_sizes();
        let n = if ctx.quick() { 6 } else { 240 };
        for _ in 0..n {
            let p = random_program(&mut rng, 1, 1, 2, 3, &sizes, false);
            let nch = est_chunks(&p);
            v.push(Case { prog: p, faults: faults_for_all_chunks(nch, &[0, -1]) });
        }
        // compressed: incompressible data over several chunks, and text
        for (data, sz) in [(DataKind::Random, Sz::new(0, 3, 100)), (DataKind::Text, Sz::new(0, 9, 0)), (DataKind::Marker, Sz::new(0, 5, 7))] {
            let p = single_file(3, 1, sz, data, ctx.seed ^ 0x43);
            v.push(Case { prog: p, faults: faults_for_all_chunks(5, &[0, 1000, -1]) });
        }
        // compressible data whose compressed stream spans many chunks: the decoder holds
        // pending output when the corrupted chunk is reached
        for (level, data) in [(1u32, DataKind::Text), (5u32, DataKind::Marker)] {
            let p = single_file(3, level, Sz::new(1, 0, -100), data, ctx.seed ^ 0x45);
            v.push(Case { prog: p, faults: faults_for_all_chunks(if ctx.quick() { 6 } else { 12 }, &[0, 3, -1]) });
        }
        if !ctx.quick() {
            let p = single_file(3, 5, Sz::new(1, 2, 0), DataKind::Random, ctx.seed ^ 0x44);
            v.push(Case { prog: p, faults: faults_for_all_chunks(36, &[0, -1]) });
        }
    }
    // a file already ended, then content blocks of another file in later chunks (a flipped id there
    // names the ended file)
    for layers in [1u8] {
        let p = Program {
            layers,
            level: 1,
            nrecip: 1,
            files: vec![FileSpec { name: NameKind::Plain(0), data: DataKind::Text }, FileSpec { name: NameKind::Plain(1), data: DataKind::Random }, FileSpec { name: NameKind::Plain(2), data: DataKind::Text }],
            ops: vec![Op::Add(0, Sz::lit(50)), Op::Start(1), Op::Start(2), Op::Append(1, Sz::new(0, 1, 100)), Op::Append(2, Sz::lit(30)), Op::Append(1, Sz::lit(100)), Op::End(2), Op::Append(1, Sz::new(0, 1, 0)), Op::Append(1, Sz::lit(7)), Op::End(1), Op::Finalize],
            seed: ctx.seed ^ 0x1DF1,
        };
        let n = est_chunks(&p);
        v.push(Case { prog: p, faults: faults_for_all_chunks(n, &[0]) });
    }
    v
}

fn apply_fault(pr: &Prepared, chunks: &[(usize, usize)], f: &Fault) -> Option<(Vec<u8>, usize)> {
    let n = chunks.len() as i64;
    let ci = if f.chunk < 0 { n + f.chunk } else { f.chunk };
    if ci < 0 || ci >= n {
        return None;
    }
    let (start, dlen) = chunks[ci as usize];
    let mut raw = pr.raw.clone();
    match f.kind {
        FaultKind::FlipData => {
            if dlen == 0 {
                return None;
            }
            let o = if f.off < 0 { dlen as i64 + f.off } else { f.off };
            if o < 0 || o >= dlen as i64 {
                return None;
            }
            raw[start + o as usize] ^= 1 << (f.bit % 8);
        }
        FaultKind::FlipTag => {
            let o = if f.off < 0 { 16 + f.off } else { f.off };
            if !(0..16).contains(&o) {
                return None;
            }
            raw[start + dlen + o as usize] ^= 1 << (f.bit % 8);
        }
        FaultKind::CutBefore => {
            raw.truncate(start);
        }
        FaultKind::CutIn => {
            let total = (dlen + 16) as i64;
            let o = if f.off < 0 { total + f.off } else { f.off };
            if o <= 0 || o >= total {
                return None;
            }
            raw.truncate(start + o as usize);
        }
    }
    Some((raw, ci as usize))
}

/// Upper bound: per-file bytes contained in the plaintext of chunks 0..k
fn upper_bound(pr: &Prepared, k: &K, enc_plain: &[u8], comp: Option<&fmt::CompInfo>, kchunk: usize) -> BTreeMap<String, Vec<u8>> {
    let a_len = (kchunk as u64 * k.chunk).min(enc_plain.len() as u64) as usize;
    let a = &enc_plain[..a_len];
    let stream: Vec<u8> = match comp {
        None => a.to_vec(),
        Some(ci) => {
            let mut s = Vec::new();
            for (o, sz) in ci.offsets.iter().zip(&ci.sizes) {
                let end = o + *sz as usize;
                if end <= a.len() {
                    if let Ok(d) = fmt::brotli_decompress_all(&a[*o..end]) {
                        s.extend(d);
                        continue;
                    }
                    break;
                }
                if *o < a.len() {
                    s.extend(fmt::brotli_decompress_prefix(&a[*o..]));
                }
                break;
            }
            s
        }
    };
    let _ = pr;
    fmt::walk(&stream).files.into_iter().map(|(n, f)| (n, f.data)).collect()
}

pub fn run_case(ctx: &mut Ctx, c: &Case) {
    let k = ctx.k;
    let p = &c.prog;
    if p.layers & 1 == 0 {
        return;
    }
    let pr = match guarded(|| sweep::prepare(p, &k)) {
        Ok(Ok(pr)) => pr,
        _ => {
            ctx.count("prepare_failed");
            return;
        }
    };
    // model view of the unaltered archive
    let Ok(d) = fmt::decode_archive(&k, &pr.raw, &pr.sks) else {
        ctx.count("prepare_failed");
        return;
    };
    let enc_plain = d.enc_plain.clone().unwrap_or_default();
    let chunks: Vec<(usize, usize)> = d.enc_chunks.iter().map(|c| (pr.header_len + c.off, c.len)).collect();
    let nch = chunks.len();
    let mut rng = Rng::derive(ctx.seed, &[0xC04F, p.fingerprint()]);
    ctx.sample(|| json!({"prog": p, "chunks": nch, "faults": c.faults.iter().take(4).collect::<Vec<_>>()}));
    // targeted alterations (not when replaying a single fault): one bit of the file id in the header of
    // every content block lying in a chunk >= 1, so that the block names another (possibly ended) file
    let mut faults = c.faults.clone();
    if c.faults.len() > 1 && d.comp.is_none() && p.files.len() >= 2 {
        for b in d.walk.blocks.iter().filter(|b| b.kind == fmt::T_CONTENT) {
            let at = b.off as u64 + 1;
            if at / k.chunk >= 1 && faults.len() < c.faults.len() + 48 {
                for bit in [0u8, 1] {
                    faults.push(Fault { kind: FaultKind::FlipData, chunk: (at / k.chunk) as i64, off: (at % k.chunk) as i64, bit });
                }
                ctx.count("musthit:flip_in_the_file_id_of_a_content_block");
            }
        }
    }
    for f in &faults {
        if !ctx.time_left() {
            return;
        }
        let Some((alt, ci)) = apply_fault(&pr, &chunks, f) else { continue };
        let kclass = if ci == 0 {
            "k0"
        } else if ci + 1 == nch {
            "klast"
        } else {
            "kmid"
        };
        let kind = format!("{:?}", f.kind);
        ctx.eval(model::prng::fnv_mix(p.fingerprint(), model::prng::fnv(format!("{f:?}").as_bytes())), true);
        ctx.count(&format!("fault:{kclass}:{kind}:layers{}", p.layers));
        ctx.count(&format!("musthit:{kclass}"));
        // is the data right after the failed chunk parseable by construction?
        let tiled = p.files.iter().any(|f| matches!(f.data, DataKind::Tiles(_)));
        if tiled {
            ctx.count("musthit:adversarial_content_parses_as_blocks");
        }
        let header_at_next = tiled || (d.comp.is_none() && d.walk.blocks.iter().any(|b| b.off as u64 == (ci as u64 + 1) * k.chunk));
        if header_at_next {
            ctx.count("post_failure_bytes_parseable_by_construction");
            if kclass == "kmid" {
                ctx.count("musthit:kmid_with_block_header_at_next_chunk");
            }
        }
        let scen = || json!({"case": {"prog": p, "faults": [f]}, "k": k.name(), "facts": xlate::facts(p, &k)});
        let ub = upper_bound(&pr, &k, &enc_plain, d.comp.as_ref(), ci);
        let cap = 4 * (pr.raw.len() + pr.expected.values().map(Vec::len).sum::<usize>()) + (1 << 20);
        // the archive source may return short reads (the same schedule for both modes)
        let src_sched = match model::prng::fnv(format!("{f:?}").as_bytes()) % 4 {
            0 => Sched::Max(65536),
            1 => Sched::Rand(70_000, p.seed),
            2 => Sched::Max(4095),
            // whole reads, except one cut inside each of the chunks 1, 2 and 3 (chunk 0 is loaded whole)
            _ => Sched::StopAt((1..=3u64).map(|j| pr.header_len as u64 + j * k.chunk_tag() + 1000 * j).collect()),
        };
        let run = |mode: Mode, rng: &mut Rng| guarded(|| drv::repair_and_read_capped(drv::ThrottledSrc::new(&alt, src_sched.clone()), &pr.sks, mode, rng, cap));
        let auth = run(Mode::Auth, &mut rng);
        let unauth = run(Mode::Unauth, &mut rng);
        let sigsuffix = format!("{kclass}:{kind}:layers{}", p.layers);
        // Anything output when chunk 0 itself is the altered chunk comes from a chunk that was
        // not authenticated: one signature per alteration kind, whatever the clause that sees it
        let k0sig = format!("chunk0-served-unauthenticated:{kind}:layers{}", p.layers);
        let clause_sig = |clause: &str| if ci == 0 { k0sig.clone() } else { format!("{clause}:{sigsuffix}") };
        let auth_files = match auth {
            Err((loc, msg)) if loc == "loops-without-bound" => {
                ctx.violation("C04", &clause_sig("auth-repair-does-not-end"), scen(), json!({"message": msg}));
                continue;
            }
            Err((loc, msg)) => {
                ctx.count("outcome:auth:panic");
                ctx.violation("C08", &format!("panic:{loc}:{}", crate::ctx::msg_class(&msg)), scen(), json!({"panic": msg, "during": "authenticated repair of a corrupted archive"}));
                continue;
            }
            Ok(Err(e)) => {
                ctx.count("outcome:auth:error");
                if e.contains("HARNESS-OUTPUT-CAP") {
                    // repair keeps writing: whatever it writes beyond the input cannot be "contiguous data from the start"
                    ctx.violation("C04", &clause_sig("auth-output-unbounded"), scen(), json!({"error": e, "failed_chunk": ci, "chunks": nch}));
                }
                // otherwise a refusal / error returns no data: nothing unauthenticated was used
                BTreeMap::new()
            }
            Ok(Ok((_st, files))) => {
                ctx.count("outcome:auth:repaired");
                files
            }
        };
        for (name, fr) in &auth_files {
            let Some(orig) = pr.expected.get(name) else {
                ctx.violation("C04", &clause_sig("auth-foreign-name"), scen(), json!({"name": drv::short(name)}));
                continue;
            };
            if !orig.starts_with(&fr.data) {
                ctx.violation("C04", &clause_sig("auth-not-prefix"), scen(), json!({"file": drv::short(name), "diff": drv::diff_desc(orig, &fr.data), "failed_chunk": ci, "chunks": nch, "block_header_at_next_chunk": header_at_next}));
                continue;
            }
            match ub.get(name) {
                None => {
                    ctx.violation("C04", &clause_sig("auth-file-from-unauthenticated-chunk"), scen(), json!({"file": drv::short(name), "bytes": fr.data.len(), "failed_chunk": ci, "chunks": nch}));
                }
                Some(u) if fr.data.len() > u.len() => {
                    ctx.violation("C04", &clause_sig("auth-beyond-authenticated"), scen(), json!({"file": drv::short(name), "recovered": fr.data.len(), "in_authenticated_chunks": u.len(), "failed_chunk": ci, "chunks": nch}));
                }
                _ => {}
            }
        }
        match unauth {
            Err((loc, msg)) => {
                ctx.count("outcome:unauth:panic");
                ctx.violation("C08", &format!("panic:{loc}:{}", crate::ctx::msg_class(&msg)), scen(), json!({"panic": msg, "during": "unauthenticated repair of a corrupted archive"}));
                if ci > 0 && auth_files.values().any(|f| !f.data.is_empty()) {
                    // nothing comes out of the unauthenticated mode where the default mode recovered data
                    ctx.violation("C04", &format!("unauth-less-than-auth:{sigsuffix}"), scen(), json!({"unauth_panic": msg}));
                }
            }
            Ok(Err(e)) => {
                ctx.count("outcome:unauth:error");
                if auth_files.values().any(|f| !f.data.is_empty()) {
                    ctx.violation("C04", &format!("unauth-less-than-auth:{sigsuffix}"), scen(), json!({"unauth_error": e}));
                }
            }
            Ok(Ok((_st, ufiles))) => {
                ctx.count("outcome:unauth:repaired");
                for (name, fr) in &auth_files {
                    let u = ufiles.get(name).map(|x| x.data.as_slice()).unwrap_or(&[]);
                    if !u.starts_with(&fr.data) {
                        ctx.violation("C04", &format!("auth-not-prefix-of-unauth:{sigsuffix}"), scen(), json!({"file": drv::short(name), "auth": fr.data.len(), "unauth": u.len()}));
                    }
                }
            }
        }
    }
}

pub fn run(ctx: &mut Ctx) {
    let cs = cases(ctx);
    for (i, c) in cs.iter().enumerate() {
        if !ctx.mine(i as u64) {
            continue;
        }
        if !ctx.time_left() {
            break;
        }
        if ctx.journal(&json!({"prop": "C04", "scenario": {"case": c, "k": ctx.k.name()}})) {
            run_case(ctx, c);
        }
    }
}

pub fn replay(ctx: &mut Ctx, scenario: &Value) -> Result<(), String> {
    let c: Case = serde_json::from_value(scenario["case"].clone()).map_err(|e| e.to_string())?;
    let from = scenario["k"].as_str().and_then(K::by_name).unwrap_or(ctx.k);
    if from == ctx.k {
        run_case(ctx, &c);
        return Ok(());
    }
    let facts: Vec<xlate::Fact> = serde_json::from_value(scenario["facts"].clone()).unwrap_or_default();
    for v in xlate::variants(&c.prog, &facts, &from, &ctx.k).into_iter().take(5) {
        if v.total_bytes(&ctx.k) > 32 << 20 {
            continue;
        }
        run_case(ctx, &Case { prog: v, faults: c.faults.clone() });
    }
    Ok(())
}
