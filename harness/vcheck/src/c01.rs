//! C01 — round-trip fidelity of every finalized archive.
use crate::ctx::{guarded, Ctx};
use crate::drv::{self, Sched};
use crate::gen;
use model::consts::{Sz, K};
use model::prng::Rng;
use model::prog::*;
use serde::{Deserialize, Serialize};
use serde_json::{json, Value};

#[derive(Clone, Debug, Serialize, Deserialize)]
pub struct Case {
    pub prog: Program,
    /// which recipient reads
    pub reader: usize,
    /// wrong keys placed before the right one in the candidate list
    pub decoys: usize,
    pub rseed: u64,
}

pub fn cases(ctx: &Ctx) -> Vec<Case> {
    let k = ctx.k;
    let mut rng = Rng::derive(ctx.seed, &[0xC01]);
    let mut v: Vec<Case> = Vec::new();
    let mut push = |p: Program, rng: &mut Rng| {
        let reader = rng.usize_below(p.nrecip.max(1));
        v.push(Case { prog: p, reader, decoys: rng.usize_below(3), rseed: rng.next() });
    };
    if !k.is_prod() {
        // (a) every single-file size, 4 layer combos, two entropies
        let hi = 2 * k.block + k.chunk;
        for layers in LAYER_COMBOS {
            for data in [DataKind::Random, DataKind::Constant(7)] {
                for p in gen::all_sizes(&k, layers, 5, 0, hi, data, ctx.seed) {
                    push(p, &mut rng);
                }
            }
        }
        // (b) interleaved programs with boundary sizes
        let n = if ctx.quick() { 16000 } else { 160000 };
        let sizes = boundary_sizes(2);
        for i in 0..n {
            let layers = LAYER_COMBOS[i % 4];
            let nfiles = 2 + rng.usize_below(3);
            let level = *rng.pick(&[0u32, 1, 5, 9, 11]);
            let p = random_program(&mut rng, layers, level, nfiles, 3, &sizes, i % 5 == 0);
            push(p, &mut rng);
        }
        // (c) all levels on a 3-block archive
        for level in 0..=11 {
            for data in gen::data_kinds() {
                for layers in [2u8, 3] {
                    push(single_file(layers, level, Sz::new(3, 0, -100), data, ctx.seed ^ u64::from(level)), &mut rng);
                }
            }
        }
        // (d) recipients x reading key
        for nrecip in 1..=4 {
            for reader in 0..nrecip {
                for layers in [1u8, 3] {
                    let mut p = single_file(layers, 5, Sz::new(0, 1, 5), DataKind::Random, ctx.seed ^ 0xD);
                    p.nrecip = nrecip;
                    v.push(Case { prog: p, reader, decoys: reader % 3, rseed: rng.next() });
                }
            }
        }
        // (e) edge programs
        let edges = [Sz::new(0, 1, 0), Sz::new(0, 2, 0), Sz::new(1, 0, 0), Sz::new(2, 0, 0), Sz::new(1, 1, 0)];
        for layers in [1u8, 2, 3] {
            for p in gen::edge_programs(&k, layers, 5, &edges, ctx.seed) {
                let reader = 0;
                v.push(Case { prog: p, reader, decoys: 0, rseed: rng.next() });
            }
        }
    } else {
        // production constants
        // (a) stream positions on / next to chunk edges
        let chunk_edges: Vec<Sz> = if ctx.quick() {
            vec![Sz::new(0, 1, 0), Sz::new(0, 2, 0)]
        } else {
            vec![Sz::new(0, 1, 0), Sz::new(0, 2, 0), Sz::new(0, 3, 0), Sz::new(0, 7, 0)]
        };
        for p in gen::edge_programs(&k, 1, 5, &chunk_edges, ctx.seed) {
            push(p, &mut rng);
        }
        // (b) block edges with compression (4 MiB blocks)
        let block_edges: Vec<Sz> = if ctx.quick() { vec![Sz::new(1, 0, 0)] } else { vec![Sz::new(1, 0, 0), Sz::new(2, 0, 0), Sz::new(3, 0, 0)] };
        for layers in [2u8, 3] {
            let lv = if ctx.quick() { vec![1u32] } else { vec![0u32, 5] };
            for level in lv {
                for p in gen::edge_programs(&k, layers, level, &block_edges, ctx.seed ^ 0xB) {
                    push(p, &mut rng);
                }
            }
        }
        // (c) small sizes, cipher-buffer edges, all layer combos
        for layers in LAYER_COMBOS {
            for n in [0i64, 1, 15, 16, 17, 4095, 4096, 4097, 8191, 8192, 8193] {
                push(single_file(layers, 5, Sz::lit(n), DataKind::Random, ctx.seed ^ n as u64), &mut rng);
            }
            for d in -20..=20 {
                push(single_file(layers, 1, Sz::new(0, 1, d), DataKind::Text, ctx.seed ^ 0x77 ^ d as u64), &mut rng);
            }
        }
        // (d) names
        for layers in LAYER_COMBOS {
            for name in [NameKind::Empty, NameKind::Unicode(3), NameKind::Long(65536), NameKind::Long(255)] {
                let mut p = single_file(layers, 5, Sz::lit(1000), DataKind::Text, ctx.seed ^ 0x4E);
                p.files[0].name = name;
                p.files.push(FileSpec { name: NameKind::Unicode(9), data: DataKind::Random });
                p.ops.insert(1, Op::Add(1, Sz::lit(77)));
                push(p, &mut rng);
            }
        }
        // (e) levels on <= 1 block
        let levels: Vec<u32> = if ctx.quick() { vec![0, 5, 11] } else { (0..=11).collect() };
        for level in levels {
            for data in [DataKind::Random, DataKind::Text] {
                let sz = if ctx.quick() { Sz::new(0, 3, 11) } else { Sz::new(1, 0, -50) };
                push(single_file(3, level, sz, data, ctx.seed ^ u64::from(level)), &mut rng);
            }
        }
        // (f) interleaved programs, chunk-edge sizes
        let n = if ctx.quick() { 640 } else { 8000 };
        let sizes = gen::chunk_sizes();
        for i in 0..n {
            let layers = LAYER_COMBOS[i % 4];
            let nfiles = 2 + rng.usize_below(if ctx.quick() { 3 } else { 8 });
            let level = *rng.pick(&[0u32, 1, 5]);
            // (flushes in one program in four, for every layer combination: (i / 4) is independent of i % 4)
            let p = random_program(&mut rng, layers, level, nfiles, 3, &sizes, (i / 4) % 4 == 0);
            push(p, &mut rng);
        }
        // (g) thorough: 64-file interleavings and multi-block archives
        if !ctx.quick() {
            for i in 0..24 {
                let layers = LAYER_COMBOS[i % 4];
                let p = random_program(&mut rng, layers, 1, 64, 4, &gen::small_sizes(), true);
                push(p, &mut rng);
            }
            let sizes = boundary_sizes(2);
            for i in 0..80 {
                let layers = LAYER_COMBOS[i % 4];
                let p = random_program(&mut rng, layers, 1, 2 + i % 3, 2, &sizes, false);
                push(p, &mut rng);
            }
        }
        // (h) recipients
        for nrecip in 1..=4 {
            for reader in 0..nrecip {
                let mut p = single_file(1, 5, Sz::lit(300), DataKind::Random, ctx.seed ^ 0xD);
                p.nrecip = nrecip;
                v.push(Case { prog: p, reader, decoys: reader % 3, rseed: rng.next() });
            }
        }
    }
    v
}

/// With both layers on, search a file size whose encryption-layer plaintext
/// (the compressed stream) is an exact multiple of the chunk size.
pub fn converge_cases(ctx: &mut Ctx) -> Vec<Case> {
    let k = ctx.k;
    let mut out = Vec::new();
    for (level, data) in [(0u32, DataKind::Random), (5u32, DataKind::Random)] {
        let mut size = k.chunk as i64 + 1000;
        let mut found = None;
        for _ in 0..12 {
            let p = single_file(3, level, Sz::lit(size), data, ctx.seed ^ 0xC0);
            let Ok(b) = drv::build(&p, &k, Sched::All) else { break };
            let Ok(h) = model::fmt::dec_header(&b.raw) else { break };
            let body = (b.raw.len() - h.len) as u64;
            let nchunks = body.div_ceil(k.chunk_tag());
            let plain = body - 16 * nchunks;
            let rem = plain % k.chunk;
            if rem == 0 {
                found = Some(p);
                break;
            }
            // aim at the next multiple
            size += (k.chunk - rem) as i64;
        }
        if let Some(p) = found {
            ctx.count("musthit:both_layers_plaintext_multiple_of_chunk");
            out.push(Case { prog: p, reader: 0, decoys: 0, rseed: 1 });
        } else {
            ctx.count("converge_failed");
        }
    }
    out
}

/// Both layers: the first compressed block ends `residue` bytes from an encryption chunk edge
/// (the compressed stream is what the encryption layer cuts into chunks); see shapes.rs
pub fn comp_block_residue_case(ctx: &mut Ctx, residue: i64, level: u32, standalone: bool) -> Option<Case> {
    match crate::shapes::block_end(&ctx.k, ctx.seed, 3, level, crate::shapes::Grid::Chunk, residue, standalone, false) {
        Some(prog) => {
            ctx.count("musthit:compressed_block_end_next_to_chunk_edge");
            if standalone {
                ctx.count("musthit:compressed_block_ends_with_standalone_final_byte");
            }
            Some(Case { prog, reader: 1, decoys: 1, rseed: 4 })
        }
        None => {
            ctx.count("comp_block_residue_not_reached");
            None
        }
    }
}

pub fn run_case(ctx: &mut Ctx, c: &Case) {
    let k = ctx.k;
    let p = &c.prog;
    let scen = || json!({"case": c, "k": k.name(), "facts": crate::xlate::facts(p, &k)});
    let nontrivial = p.is_nontrivial(&k);
    ctx.eval(p.fingerprint() ^ c.reader as u64, nontrivial);
    for cl in alignment_classes(p, &k) {
        ctx.count(&format!("align:{cl}"));
    }
    ctx.count(&format!("layers:{}", p.layers));
    let nfiles = p.files.len();
    ctx.count(&format!("files:{}", if nfiles >= 8 { "8+".to_string() } else { nfiles.to_string() }));
    ctx.sample(|| json!({"case": c, "total_bytes": p.total_bytes(&k)}));
    let lay = layout(p, &k);
    if p.layers == 1 && lay.stream_len % k.chunk == 0 {
        ctx.count("musthit:encrypt_plaintext_multiple_of_chunk");
    }
    let res = guarded(|| -> Result<(), (String, String)> {
        // the data of each piece comes from a source that may return fewer bytes than asked
        let total = p.total_bytes(&k);
        let src_sched = match c.rseed % 5 {
            0 if total <= 300_000 => Sched::Max(1),
            1 if total <= 4_000_000 => Sched::Cycle(7),
            2 => Sched::Rand(5000, c.rseed),
            3 => Sched::Max(4095),
            _ => Sched::All,
        };
        let b = drv::build_with_sources(p, &k, Sched::All, src_sched).map_err(|e| ("valid-call-refused".to_string(), e))?;
        // candidate key list: decoys first, then the reading recipient's key
        let mut keys: Vec<[u8; 32]> = (0..c.decoys).map(|i| secret_key(p.seed ^ 0xBAD, 100 + i)).collect();
        if p.layers & 1 != 0 {
            keys.push(b.sks[c.reader.min(b.sks.len() - 1)]);
        }
        let mut rng = Rng::new(c.rseed);
        let got = drv::read_all(&b.raw, &keys, &mut rng).map_err(|e| {
            let cls = if e.starts_with("open") { "open-failed" } else { "read-failed" };
            (cls.to_string(), e)
        })?;
        drv::compare_maps(&b.expected, &got).map_err(|e| {
            let cls = e.split(' ').next().unwrap_or("diff").to_string();
            (format!("mismatch-{cls}"), e)
        })
    });
    match res {
        Ok(Ok(())) => ctx.count("held"),
        Ok(Err((cls, msg))) => {
            let sig = format!("{cls}:layers{}", p.layers);
            ctx.violation("C01", &sig, scen(), json!({"message": msg, "alignment": alignment_classes(p, &k), "stream_len": lay.stream_len}));
        }
        Err((loc, msg)) => {
            // a crash while writing / reading a VALID archive is a C01 failure (the data is not returned)
            let sig = format!("panic:{loc}:layers{}", p.layers);
            ctx.violation("C01", &sig, scen(), json!({"panic": msg, "at": loc}));
        }
    }
}

pub fn run(ctx: &mut Ctx) {
    let cs = cases(ctx);
    for (i, c) in cs.iter().enumerate() {
        if !ctx.mine(i as u64) {
            continue;
        }
        if !ctx.time_left() {
            break;
        }
        if ctx.journal(&json!({"prop": "C01", "scenario": c})) {
            run_case(ctx, c);
        }
    }
    if ctx.k.is_prod() {
        // one residue per shard: -2..=3 bytes around a chunk edge, two levels in thorough
        let residues: [i64; 6] = [-2, -1, 0, 1, 2, 3];
        for (i, r) in residues.iter().enumerate() {
            for (j, (level, standalone)) in [(1u32, true), (1, false), (5, true), (5, false)].iter().enumerate() {
                if (j >= 2 && ctx.quick()) || (i + 6 * j) % ctx.nshards != ctx.shard {
                    continue;
                }
                if let Some(c) = comp_block_residue_case(ctx, *r, *level, *standalone) {
                    if ctx.journal(&json!({"prop": "C01", "scenario": {"case": c, "k": ctx.k.name()}})) {
                        run_case(ctx, &c);
                    }
                }
            }
        }
    }
    if ctx.k.is_prod() && ctx.shard == ctx.nshards - 1 {
        for c in converge_cases(ctx) {
            if ctx.journal(&json!({"prop": "C01", "scenario": c})) {
                run_case(ctx, &c);
            }
        }
    }
}

pub fn replay(ctx: &mut Ctx, scenario: &Value) -> Result<(), String> {
    let c: Case = serde_json::from_value(scenario["case"].clone()).map_err(|e| e.to_string())?;
    let from = scenario["k"].as_str().and_then(K::by_name).unwrap_or(ctx.k);
    if from == ctx.k {
        run_case(ctx, &c);
        return Ok(());
    }
    let facts: Vec<crate::xlate::Fact> = serde_json::from_value(scenario["facts"].clone()).unwrap_or_default();
    for v in crate::xlate::variants(&c.prog, &facts, &from, &ctx.k) {
        if v.total_bytes(&ctx.k) > 48 << 20 {
            continue;
        }
        run_case(ctx, &Case { prog: v, ..c.clone() });
    }
    Ok(())
}
