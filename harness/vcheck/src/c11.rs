//! C11 — each layer reader behaves like a plain seekable byte stream.
//! Lock-step differential against `std::io::Cursor` over the layer's plaintext.
use crate::ctx::{guarded, Ctx};
use mla::config::ArchiveReaderConfig;
use mla::layers::compress::CompressionLayerReader;
use mla::layers::encrypt::EncryptionLayerReader;
use mla::layers::raw::RawLayerReader;
use mla::layers::traits::LayerReader;
use mla::ArchiveHeader;
use model::consts::{Sz, K};
use model::fmt;
use model::prng::Rng;
use model::prog::{file_bytes, secret_key, DataKind};
use serde::{Deserialize, Serialize};
use serde_json::{json, Value};
use std::io::{Cursor, Read, Seek, SeekFrom};
use x25519_dalek::StaticSecret;

#[derive(Clone, Copy, Debug, Serialize, Deserialize, PartialEq, Eq, Hash)]
pub enum Tgt {
    FromStart(Sz),
    FromEnd(Sz),
}

#[derive(Clone, Copy, Debug, Serialize, Deserialize, PartialEq, Eq, Hash)]
pub enum Op {
    SeekStart(Tgt),
    SeekCur(Tgt),
    SeekEnd(Tgt),
    Pos,
    Read(Sz),
}

#[derive(Clone, Debug, Serialize, Deserialize)]
pub struct Case {
    /// raw | enc | comp | both
    pub layer: String,
    pub len: Sz,
    pub data: DataKind,
    /// bytes before the stream start (raw layer start offset)
    pub offset: u32,
    pub quality: u32,
    pub seed: u64,
    pub histories: Vec<Vec<Op>>,
    /// the content starts with this many incompressible bytes, then this many bytes of text
    /// (tunes the size and the last bits of compressed block 0)
    #[serde(default)]
    pub lead: (u32, u32),
    /// bytes handed to the model's brotli encoder per write (0: the whole block at once)
    #[serde(default)]
    pub write_piece: u32,
}

fn tgt(t: u64, len: u64, k: &K) -> Tgt {
    if len - t <= 40 {
        Tgt::FromEnd(Sz::from_concrete(len - t, k))
    } else {
        Tgt::FromStart(Sz::from_concrete(t, k))
    }
}

fn resolve(t: Tgt, len: u64, k: &K) -> u64 {
    match t {
        Tgt::FromStart(s) => s.eval(k).min(len),
        Tgt::FromEnd(s) => len.saturating_sub(s.eval(k)),
    }
}

fn enumerated_histories(len: u64, k: &K, stride: u64) -> Vec<Vec<Op>> {
    let mut hs = Vec::new();
    let mut t = 0;
    while t <= len {
        let g = tgt(t, len, k);
        hs.push(vec![
            Op::SeekStart(g),
            Op::Pos,
            Op::Read(Sz::lit(5)),
            Op::Pos,
            Op::SeekCur(g),
            Op::Pos,
            Op::Read(Sz::from_concrete(len, k)),
            Op::Pos,
            Op::Read(Sz::lit(1)),
        ]);
        let t2 = (t * 7 + 3) % (len + 1);
        hs.push(vec![Op::SeekEnd(g), Op::Pos, Op::Read(Sz::lit(3)), Op::SeekCur(tgt(t2, len, k)), Op::Pos, Op::Read(Sz::lit(2)), Op::Pos]);
        hs.push(vec![
            Op::SeekStart(Tgt::FromStart(Sz::lit(0))),
            Op::Read(Sz::from_concrete(t, k)),
            Op::Pos,
            Op::SeekEnd(Tgt::FromEnd(Sz::lit(0))),
            Op::Pos,
            Op::SeekCur(g),
            Op::Read(Sz::lit(4)),
        ]);
        t += stride;
        if stride > 1 && t > len && t - stride < len {
            t = len;
        }
    }
    // reads that END exactly on an edge (or anywhere), then a relative seek forward / backward, then a read:
    // state left by a read that stopped on a chunk / block edge must not leak into the seek
    let mut ends: Vec<u64> = Vec::new();
    let mut e = k.chunk;
    while e <= len {
        ends.extend([e - 1, e, e + 1]);
        e += k.chunk;
    }
    ends.extend([1, len / 2, len.saturating_sub(1), len]);
    ends.sort_unstable();
    ends.dedup();
    for t in ends.into_iter().filter(|t| *t <= len) {
        for d in [1i64, 2, 17, -1, -3, k.chunk as i64, k.block as i64 - 1] {
            let target = t as i64 + d;
            if target < 0 || target as u64 > len {
                continue;
            }
            let from = t.saturating_sub(40);
            hs.push(vec![
                Op::SeekStart(tgt(from, len, k)),
                Op::Read(Sz::from_concrete(t - from, k)),
                Op::SeekCur(tgt(target as u64, len, k)),
                Op::Pos,
                Op::Read(Sz::lit(9)),
                Op::Pos,
            ]);
            // same, reading from the very start in two reads
            hs.push(vec![Op::Read(Sz::from_concrete(t / 2, k)), Op::Read(Sz::from_concrete(t - t / 2, k)), Op::SeekCur(tgt(target as u64, len, k)), Op::Read(Sz::lit(9)), Op::Pos]);
        }
    }
    hs
}

fn random_history(rng: &mut Rng, len: u64, k: &K, n: usize) -> Vec<Op> {
    let mut h = Vec::new();
    let interesting = |rng: &mut Rng| -> u64 {
        let c = k.chunk;
        let cands = [0, len, len.saturating_sub(1), len.saturating_sub(4), len.saturating_sub(16), len.saturating_sub(17), c.min(len), (c - 1).min(len), (c + 1).min(len), (2 * c).min(len), k.block.min(len), (k.block + 1).min(len), (len / c) * c, rng.below(len + 1), rng.below(len + 1)];
        *rng.pick(&cands)
    };
    for _ in 0..n {
        match rng.below(6) {
            0 => h.push(Op::SeekStart(tgt(interesting(rng), len, k))),
            1 => h.push(Op::SeekCur(tgt(interesting(rng), len, k))),
            2 => h.push(Op::SeekEnd(tgt(interesting(rng), len, k))),
            3 => h.push(Op::Pos),
            _ => {
                let sizes = [0u64, 1, 2, 7, 16, 100, k.cbuf, k.chunk - 1, k.chunk, k.chunk + 1, k.block + 1, len + 3];
                h.push(Op::Read(Sz::from_concrete(*rng.pick(&sizes), k)));
            }
        }
    }
    h
}

/// (index, case) pairs: all of them at production scale, only this shard's at scaled constants
pub fn cases(ctx: &Ctx) -> Vec<(u64, Case)> {
    let k = ctx.k;
    let mut rng = Rng::derive(ctx.seed, &[0xC11]);
    let mut v = Vec::new();
    let mk = |layer: &str, len: u64, data: DataKind, seed: u64, hs: Vec<Vec<Op>>, rng: &mut Rng| Case {
        layer: layer.into(),
        len: Sz::from_concrete(len, &k),
        data,
        offset: if layer == "raw" { rng.below(70) as u32 } else { 0 },
        quality: *rng.pick(&[0u32, 1, 5]),
        seed,
        histories: hs,
        lead: (0, 0),
        write_piece: 0,
    };
    if !k.is_prod() {
        // exhaustive: every length, every target. Only the cases of this shard are materialised (each
        // carries thousands of histories; the whole list does not fit in memory 16 times over)
        let mut out: Vec<(u64, Case)> = Vec::new();
        let mut idx = 0u64;
        let mut emit = |layer: &str, len: u64, data: DataKind, seed: u64, stride: u64, random_ops: usize| {
            let i = idx;
            idx += 1;
            if !ctx.mine(i) {
                return;
            }
            let mut r = Rng::derive(ctx.seed, &[0xC11, i]);
            let mut hs = enumerated_histories(len, &k, stride);
            if random_ops > 0 {
                hs.push(random_history(&mut r, len, &k, random_ops));
            }
            out.push((i, mk(layer, len, data, seed, hs, &mut r)));
        };
        let enc_max = 3 * k.chunk + 17;
        for len in 0..=enc_max {
            emit("enc", len, DataKind::Random, ctx.seed ^ len, 1, 0);
        }
        for len in (0..=enc_max).step_by(7) {
            emit("raw", len, DataKind::Random, ctx.seed ^ len, 3, 0);
        }
        let comp_max = if ctx.quick() { 2 * k.block + 1 } else { 3 * k.block + 1 };
        let step = if ctx.quick() { 3 } else { 1 };
        for len in (0..=comp_max).filter(|l| l % step == 0 || l % k.block <= 1 || l % k.block == k.block - 1) {
            let stride = if len > 600 { 13 } else { 5 };
            let data = if len % 2 == 0 { DataKind::Random } else { DataKind::Text };
            emit("comp", len, data, ctx.seed ^ len, stride, 30);
            if len % 5 == 0 || len % k.block <= 1 {
                emit("both", len, data, ctx.seed ^ len ^ 0xB0, stride, 30);
            }
        }
        return out;
    } else {
        // production: lengths around chunk multiples, below one tag, around block multiples
        let mut lens: Vec<u64> = Vec::new();
        for j in 0..=3u64 {
            for r in -17i64..=17 {
                let l = j as i64 * k.chunk as i64 + r;
                if l >= 0 {
                    lens.push(l as u64);
                }
            }
        }
        lens.extend(0..16);
        lens.sort_unstable();
        lens.dedup();
        for len in &lens {
            let mut hs = Vec::new();
            // targets: around every chunk edge and the end
            let mut ts: Vec<u64> = vec![0, 1, *len, len.saturating_sub(1), len.saturating_sub(4), len.saturating_sub(17)];
            for j in 1..=3 {
                for d in [-1i64, 0, 1] {
                    let t = j * k.chunk as i64 + d;
                    if t >= 0 && t as u64 <= *len {
                        ts.push(t as u64);
                    }
                }
            }
            ts.sort_unstable();
            ts.dedup();
            for t in ts.iter().filter(|t| **t <= *len) {
                let g = tgt(*t, *len, &k);
                hs.push(vec![Op::SeekStart(g), Op::Pos, Op::Read(Sz::lit(5)), Op::Pos, Op::SeekCur(g), Op::Pos, Op::Read(Sz::from_concrete(*len, &k)), Op::Pos]);
                hs.push(vec![Op::SeekEnd(g), Op::Pos, Op::Read(Sz::lit(3)), Op::Pos]);
                hs.push(vec![Op::Read(Sz::from_concrete(*t, &k)), Op::Pos, Op::SeekEnd(Tgt::FromEnd(Sz::lit(4))), Op::Pos, Op::Read(Sz::lit(9))]);
            }
            for _ in 0..(if ctx.quick() { 1 } else { 6 }) {
                hs.push(random_history(&mut rng, *len, &k, 50));
            }
            v.push(mk("enc", *len, DataKind::Random, ctx.seed ^ len, hs.clone(), &mut rng));
            if len % 9 == 0 {
                v.push(mk("raw", *len, DataKind::Random, ctx.seed ^ len, hs, &mut rng));
            }
        }
        // compression layer: lengths around block multiples (and small ones)
        let mut clens: Vec<u64> = vec![0, 1, 100, k.chunk, k.chunk + 1];
        let maxb = if ctx.quick() { 1 } else { 3 };
        for i in 1..=maxb {
            for r in [-1i64, 0, 1] {
                clens.push((i * k.block as i64 + r) as u64);
            }
        }
        for len in clens {
            let mut hs = Vec::new();
            let mut ts = vec![0, len, len.saturating_sub(1), len / 2];
            for i in 1..=maxb as u64 {
                for d in [-1i64, 0, 1] {
                    let t = (i * k.block) as i64 + d;
                    if t >= 0 && t as u64 <= len {
                        ts.push(t as u64);
                    }
                }
            }
            ts.sort_unstable();
            ts.dedup();
            for t in ts {
                let g = tgt(t, len, &k);
                hs.push(vec![Op::SeekStart(g), Op::Pos, Op::Read(Sz::lit(5)), Op::Pos, Op::SeekCur(g), Op::Pos, Op::Read(Sz::lit(70000)), Op::Pos]);
                hs.push(vec![Op::SeekEnd(g), Op::Pos, Op::Read(Sz::lit(3)), Op::Pos]);
            }
            hs.push(random_history(&mut rng, len, &k, if ctx.quick() { 12 } else { 50 }));
            // reads ending on chunk / block edges followed by relative seeks (edge-directed part of the enumerated patterns)
            let eh = enumerated_histories(len, &k, len.max(1));
            hs.extend(eh.into_iter().filter(|h| matches!(h.first(), Some(Op::SeekStart(_)) | Some(Op::Read(_))) && h.len() <= 6).filter(|h| {
                // keep those whose first read ends on / next to a block edge
                h.iter().any(|op| matches!(op, Op::SeekCur(Tgt::FromStart(s)) if s.b > 0 && s.c == 0 && s.d.abs() <= 20) || matches!(op, Op::SeekCur(Tgt::FromEnd(_))))
            }));
            v.push(mk("comp", len, DataKind::Text, ctx.seed ^ len, hs.clone(), &mut rng));
            v.push(mk("both", len, DataKind::Random, ctx.seed ^ len ^ 0xB0, hs, &mut rng));
        }
    }
    v.into_iter().enumerate().map(|(i, c)| (i as u64, c)).collect()
}

type BoxReader<'a> = Box<dyn 'a + LayerReader<'a, Cursor<Vec<u8>>>>;

/// Build the layer reader the way `mlar info` builds it
fn build_reader<'a>(c: &Case, k: &K, plain: &[u8]) -> Result<BoxReader<'a>, String> {
    let mut rng = Rng::derive(c.seed, &[0x11]);
    match c.layer.as_str() {
        "raw" => {
            let mut bytes = rng.bytes(c.offset as usize);
            bytes.extend_from_slice(plain);
            let mut cur = Cursor::new(bytes);
            cur.set_position(u64::from(c.offset));
            let mut r = Box::new(RawLayerReader::new(cur));
            r.reset_position().map_err(|e| e.to_string())?;
            Ok(r)
        }
        layer => {
            let sk = secret_key(c.seed, 0);
            let enc = layer == "enc" || layer == "both";
            let comp = layer == "comp" || layer == "both";
            let q = c.quality;
            let wp = if c.write_piece == 0 { usize::MAX } else { c.write_piece as usize };
            let inner = if comp { fmt::enc_compress_pieces(k, plain, &|_| q, wp) } else { plain.to_vec() };
            let raw = if enc {
                let key = rng.array32();
                let nonce: [u8; 8] = rng.bytes(8).try_into().unwrap();
                let eh = fmt::wrap_key(&rng.array32(), &[fmt::public_of(&sk)], &key, &nonce);
                let mut raw = fmt::enc_header(if comp { 3 } else { 1 }, Some(&eh));
                raw.extend(fmt::enc_encrypt(k, &key, &nonce, &inner));
                raw
            } else {
                let mut raw = fmt::enc_header(2, None);
                raw.extend(inner);
                raw
            };
            let mut src = Cursor::new(raw);
            let header = ArchiveHeader::from(&mut src).map_err(|e| format!("header: {e}"))?;
            let mut config = ArchiveReaderConfig::new();
            config.add_private_keys(&[StaticSecret::from(sk)]);
            config.load_persistent(header.config).map_err(|e| format!("config: {e}"))?;
            let mut raw_src = Box::new(RawLayerReader::new(src));
            raw_src.reset_position().map_err(|e| e.to_string())?;
            let mut r: BoxReader<'a> = raw_src;
            if enc {
                r = Box::new(EncryptionLayerReader::new(r, &config.encrypt).map_err(|e| format!("enc new: {e}"))?);
            }
            if comp {
                r = Box::new(CompressionLayerReader::new(r).map_err(|e| format!("comp new: {e}"))?);
            }
            r.initialize().map_err(|e| format!("initialize: {e}"))?;
            // mlar info rewinds before use
            r.rewind().map_err(|e| format!("rewind: {e}"))?;
            Ok(r)
        }
    }
}

fn len_class(len: u64, k: &K) -> &'static str {
    if len == 0 {
        "len=0"
    } else if len < 16 {
        "len<tag"
    } else if len % k.block == 0 {
        "len%block=0"
    } else if len % k.chunk == 0 {
        "len%chunk=0"
    } else {
        "len_other"
    }
}

fn pos_class(t: u64, len: u64, k: &K) -> &'static str {
    if t == len {
        "at_end"
    } else if t / k.chunk == len / k.chunk && len % k.chunk != 0 {
        "in_last_partial_chunk"
    } else if t % k.chunk == 0 {
        "chunk_edge"
    } else {
        "inside"
    }
}

fn content(c: &Case, len: u64) -> Vec<u8> {
    let mut plain = file_bytes(c.seed, 0, c.data, len as usize);
    let r = (c.lead.0 as usize).min(plain.len());
    let t = (c.lead.1 as usize).min(plain.len() - r);
    plain[..r].copy_from_slice(&file_bytes(c.seed, 1, DataKind::Random, r));
    plain[r..r + t].copy_from_slice(&file_bytes(c.seed, 2, DataKind::Text, t));
    plain
}

/// Compression over encryption, production constants: `r` incompressible bytes, `t` bytes of
/// text, then constant data. `t` is varied until the first compressed block ends with a byte the
/// decoder does not need to deliver the block's data (it only holds the end-of-stream bits), `r`
/// tuned until that block ends `residue` bytes after an encryption chunk edge: at residue 1 a
/// sequential read leaves that byte unread in the layer below when it rolls over to block 1.
fn tuned_both_case(ctx: &Ctx, residue: i64, seed: u64) -> Option<(Case, bool)> {
    let k = ctx.k;
    let len = k.block + 300_000;
    let mut c = Case { layer: "both".into(), len: Sz::from_concrete(len, &k), data: DataKind::Constant(0x3c), offset: 0, quality: 1, seed, histories: vec![], lead: (0, 0), write_piece: 8192 };
    let want = residue.rem_euclid(k.chunk as i64);
    for t in 1..=64u32 {
        let mut r = 5 * k.chunk as i64 + 4321;
        for _ in 0..10 {
            c.lead = (r as u32, t * 29);
            let plain = content(&c, len);
            let blk = fmt::brotli_compress_pieces(&plain[..k.block as usize], 1, 8192);
            let unneeded = fmt::brotli_decompress_prefix(&blk[..blk.len() - 1]).len() as u64 == k.block;
            let have = (blk.len() as i64).rem_euclid(k.chunk as i64);
            if have == want && !unneeded {
                break; // right place, wrong last bits: next t
            }
            if have == want {
                let b = Sz::new(1, 0, 0);
                let at = |d: i64| Sz::new(1, 0, d);
                c.histories = vec![
                    // sequential reads over the block edge, various read sizes
                    vec![Op::Read(at(-10)), Op::Pos, Op::Read(Sz::lit(100)), Op::Pos, Op::Read(Sz::lit(70_000)), Op::Pos, Op::Read(Sz::lit(400_000)), Op::Pos],
                    vec![Op::Read(b), Op::Pos, Op::Read(Sz::lit(1)), Op::Pos, Op::Read(Sz::lit(299_999)), Op::Pos, Op::Read(Sz::lit(5))],
                    vec![Op::Read(Sz::from_concrete(len, &k)), Op::Pos, Op::Read(Sz::lit(5))],
                    vec![Op::SeekStart(Tgt::FromStart(at(-4097))), Op::Read(Sz::lit(4096)), Op::Read(Sz::lit(4096)), Op::Pos, Op::Read(Sz::lit(300_000))],
                ];
                return Some((c, unneeded));
            }
            // signed shortest step: stored noise costs a little more than a byte per byte, so
            // short steps converge
            let mut step = (want - have).rem_euclid(k.chunk as i64);
            if step > k.chunk as i64 / 2 {
                step -= k.chunk as i64;
            }
            r += step;
        }
    }
    None
}

pub fn run_case(ctx: &mut Ctx, c: &Case) {
    let k = ctx.k;
    let len = c.len.eval(&k);
    let plain = content(c, len);
    let nops: usize = c.histories.iter().map(Vec::len).sum();
    let fp = model::prng::fnv(format!("{}|{}|{:?}", c.layer, len, c.histories.len()).as_bytes()) ^ c.seed;
    ctx.eval(fp, nops >= 2);
    ctx.count(&format!("layer:{}", c.layer));
    ctx.count(&format!("lenclass:{}:{}", c.layer, len_class(len, &k)));
    ctx.add("ops", nops as u64);
    ctx.sample(|| json!({"layer": c.layer, "len": len, "first_history": c.histories.first()}));
    for h in &c.histories {
        let r = guarded(|| run_history(ctx, c, &k, &plain, h));
        match r {
            Ok(Ok(())) => {}
            Ok(Err((sig, detail))) => {
                let one = Case { histories: vec![h.clone()], ..c.clone() };
                ctx.violation("C11", &sig, json!({"case": one, "k": k.name()}), detail);
            }
            Err((loc, msg)) => {
                // a crash on a valid stream: the operation did not behave like a cursor
                let one = Case { histories: vec![h.clone()], ..c.clone() };
                ctx.violation("C11", &format!("{}:panic:{}:{}", c.layer, loc, len_class(len, &k)), json!({"case": one, "k": k.name()}), json!({"panic": msg}));
            }
        }
    }
}

fn run_history(ctx: &mut Ctx, c: &Case, k: &K, plain: &[u8], h: &[Op]) -> Result<(), (String, Value)> {
    let len = plain.len() as u64;
    let mut r = build_reader(c, k, plain).map_err(|e| (format!("{}:open:{}", c.layer, len_class(len, k)), json!({"error": e, "len": len})))?;
    let mut m = Cursor::new(plain);
    let lc = len_class(len, k);
    for (i, op) in h.iter().enumerate() {
        let fail = |kind: &str, t: u64, what: String| -> (String, Value) {
            (format!("{}:{}:{}:{}", c.layer, kind, lc, pos_class(t, len, k)), json!({"step": i, "op": op, "len": len, "target": t, "what": what}))
        };
        match op {
            Op::SeekStart(g) | Op::SeekCur(g) | Op::SeekEnd(g) => {
                let t = resolve(*g, len, k);
                let (kind, sf) = match op {
                    Op::SeekStart(_) => ("seek_start", SeekFrom::Start(t)),
                    Op::SeekCur(_) => ("seek_current", SeekFrom::Current(t as i64 - m.position() as i64)),
                    _ => ("seek_end", SeekFrom::End(t as i64 - len as i64)),
                };
                if t == len {
                    ctx.count("musthit:seek_to_len");
                }
                if matches!(op, Op::SeekEnd(_)) && len > 0 && len % k.chunk == 0 && (c.layer == "enc") {
                    ctx.count("musthit:seek_end_len_multiple_of_chunk");
                }
                let want = m.seek(sf).unwrap();
                match r.seek(sf) {
                    Ok(got) if got == want => {}
                    Ok(got) => return Err(fail(kind, t, format!("returned position {got}, cursor says {want}"))),
                    Err(e) => return Err(fail(kind, t, format!("seek within [0,len] failed: {e}"))),
                }
            }
            Op::Pos => {
                let want = m.position();
                if want / k.chunk == len / k.chunk && len % k.chunk != 0 && want > k.chunk {
                    ctx.count("musthit:position_query_in_last_partial_chunk");
                }
                match r.stream_position() {
                    Ok(got) if got == want => {}
                    Ok(got) => return Err(fail("position", want, format!("stream_position {got}, cursor says {want}"))),
                    Err(e) => return Err(fail("position", want, format!("stream_position failed: {e}"))),
                }
            }
            Op::Read(n) => {
                let n = n.eval(k) as usize;
                let at = m.position();
                // an empty buffer first: Ok(0), nothing moves (whatever the state of the reader)
                match r.read(&mut []) {
                    Ok(0) => ctx.count("zero_size_reads"),
                    Ok(x) => return Err(fail("read", at, format!("read into an empty buffer returned {x}"))),
                    Err(e) => return Err(fail("read", at, format!("read into an empty buffer failed: {e}"))),
                }
                let mut want = vec![0u8; n];
                let wn = read_full(&mut m, &mut want).unwrap();
                want.truncate(wn);
                let mut got = vec![0u8; n];
                match read_full(&mut r, &mut got) {
                    Ok(gn) => {
                        got.truncate(gn);
                        if got != want {
                            let what = if gn != wn {
                                format!("read {gn} bytes where the cursor gives {wn} (end of stream misplaced)")
                            } else {
                                "bytes differ".to_string()
                            };
                            return Err(fail("read", at, what));
                        }
                    }
                    Err(e) => return Err(fail("read", at, format!("read failed: {e}"))),
                }
            }
        }
    }
    Ok(())
}

/// accumulate until the buffer is full or Ok(0)
fn read_full<R: Read>(r: &mut R, buf: &mut [u8]) -> std::io::Result<usize> {
    let mut n = 0;
    while n < buf.len() {
        let k = r.read(&mut buf[n..])?;
        if k == 0 {
            break;
        }
        n += k;
    }
    Ok(n)
}

/// Read + Seek over `prefix` + `unit` repeated `n` times + `suffix`, without holding the whole in memory
struct Repeated {
    prefix: Vec<u8>,
    unit: Vec<u8>,
    n: u64,
    suffix: Vec<u8>,
    pos: u64,
}
impl Repeated {
    fn len(&self) -> u64 {
        self.prefix.len() as u64 + self.unit.len() as u64 * self.n + self.suffix.len() as u64
    }
}
impl Read for Repeated {
    fn read(&mut self, buf: &mut [u8]) -> std::io::Result<usize> {
        let (pl, ul) = (self.prefix.len() as u64, self.unit.len() as u64);
        let body_end = pl + ul * self.n;
        let (src, off): (&[u8], usize) = if self.pos < pl {
            (&self.prefix, self.pos as usize)
        } else if self.pos < body_end {
            (&self.unit, ((self.pos - pl) % ul) as usize)
        } else {
            (&self.suffix, (self.pos - body_end).min(self.suffix.len() as u64) as usize)
        };
        let n = buf.len().min(src.len() - off);
        buf[..n].copy_from_slice(&src[off..off + n]);
        self.pos += n as u64;
        Ok(n)
    }
}
impl Seek for Repeated {
    fn seek(&mut self, p: SeekFrom) -> std::io::Result<u64> {
        let new = match p {
            SeekFrom::Start(x) => x as i128,
            SeekFrom::Current(d) => self.pos as i128 + d as i128,
            SeekFrom::End(d) => self.len() as i128 + d as i128,
        };
        if new < 0 {
            return Err(std::io::Error::new(std::io::ErrorKind::InvalidInput, "negative position"));
        }
        self.pos = new as u64;
        Ok(self.pos)
    }
}

/// A compressed stream of more than 4 GiB (1100 identical incompressible 4 MiB blocks, served by a
/// virtual source): positions beyond 2^32 in the compressed stream, seeks from the end, reads
/// across block edges far into the stream, all compared with the plaintext (block i = the same block)
fn huge_compressed_stream(ctx: &mut Ctx) {
    let k = ctx.k;
    let blocks = 1100u64;
    let plain_block = file_bytes(ctx.seed ^ 0x4B16, 0, DataKind::Random, k.block as usize);
    let unit = fmt::brotli_compress(&plain_block, 1);
    let suffix = fmt::enc_sizes_footer(&vec![unit.len() as u32; blocks as usize], k.block as u32);
    let total = k.block * blocks;
    ctx.eval(ctx.seed ^ 0x4B16, true);
    ctx.count("layer:comp_beyond_4gib");
    let scen = json!({"case": {"layer": "comp", "blocks": blocks, "compressed_block": unit.len()}, "k": k.name()});
    let r = guarded(|| -> Result<(), String> {
        let mut src = Repeated { prefix: fmt::enc_header(2, None), unit: unit.clone(), n: blocks, suffix: suffix.clone(), pos: 0 };
        if src.len() <= 1 << 32 {
            return Err("HARNESS: the stream is not beyond 4 GiB".into());
        }
        let _header = ArchiveHeader::from(&mut src).map_err(|e| format!("header: {e}"))?;
        let mut raw = Box::new(RawLayerReader::new(src));
        raw.reset_position().map_err(|e| e.to_string())?;
        let mut r = CompressionLayerReader::new(raw).map_err(|e| format!("comp new: {e}"))?;
        r.initialize().map_err(|e| format!("initialize: {e}"))?;
        let expect = |pos: u64, n: usize| -> Vec<u8> {
            let avail = (total.saturating_sub(pos)).min(n as u64);
            (0..avail).map(|i| plain_block[((pos + i) % k.block) as usize]).collect()
        };
        let targets = [0u64, 5 * k.block - 3, 1023 * k.block - 7, 1024 * k.block, 1060 * k.block + 12345, 1061 * k.block - 10, total - 5, total];
        for t in targets {
            let got = r.seek(SeekFrom::Start(t)).map_err(|e| format!("seek(Start({t})) failed: {e}"))?;
            if got != t {
                return Err(format!("seek(Start({t})) returned {got}"));
            }
            let mut buf = vec![0u8; 70_000];
            let n = read_full(&mut r, &mut buf).map_err(|e| format!("read at {t} failed: {e}"))?;
            if buf[..n] != expect(t, 70_000)[..] {
                return Err(format!("read of 70000 at {t}: {n} bytes, not the bytes of the stream"));
            }
            let p = r.stream_position().map_err(|e| e.to_string())?;
            if p != t + n as u64 {
                return Err(format!("position after reading {n} at {t}: {p}"));
            }
        }
        let got = r.seek(SeekFrom::End(-9)).map_err(|e| format!("seek(End(-9)) failed: {e}"))?;
        if got != total - 9 {
            return Err(format!("seek(End(-9)) returned {got}, length is {total}"));
        }
        let back = r.seek(SeekFrom::Current(-(3 * k.block as i64))).map_err(|e| format!("seek(Current) failed: {e}"))?;
        let mut buf = vec![0u8; 100];
        let n = read_full(&mut r, &mut buf).map_err(|e| format!("read failed: {e}"))?;
        if buf[..n] != expect(back, 100)[..] {
            return Err("read after a relative seek: not the bytes of the stream".into());
        }
        Ok(())
    });
    match r {
        Ok(Ok(())) => ctx.count("held:comp_beyond_4gib"),
        Ok(Err(e)) => ctx.violation("C11", "comp:beyond-4GiB-of-compressed-data", scen, json!({"message": e})),
        Err((loc, msg)) => ctx.violation("C11", &format!("comp:panic:{loc}:beyond-4GiB"), scen, json!({"panic": msg})),
    }
}

/// Compression over encryption: the whole compressed stream (blocks, size table, its 4-byte length)
/// is `residue` bytes longer than a multiple of the encryption chunk, so that the 4-byte length at its
/// end straddles two chunks for residues 1..3 (a read of 4 bytes there is legitimately served in two parts)
fn stream_end_residue_case(ctx: &Ctx, residue: u64, seed: u64) -> Option<Case> {
    let k = ctx.k;
    let mut len = k.chunk + 70_000;
    let mut c = Case { layer: "both".into(), len: Sz::from_concrete(len, &k), data: DataKind::Random, offset: 0, quality: 1, seed, histories: vec![], lead: (0, 0), write_piece: 0 };
    for _ in 0..10 {
        c.len = Sz::from_concrete(len, &k);
        let total = fmt::enc_compress(&k, &content(&c, len), &|_| 1).len() as u64;
        let have = total % k.chunk;
        if have == residue % k.chunk {
            let end = |d: u64| Tgt::FromEnd(Sz::lit(d as i64));
            c.histories = vec![
                vec![Op::Pos, Op::Read(Sz::lit(100)), Op::Pos, Op::SeekEnd(end(4)), Op::Pos, Op::Read(Sz::lit(9)), Op::Pos],
                vec![Op::SeekStart(Tgt::FromStart(Sz::new(0, 1, -3))), Op::Read(Sz::lit(10)), Op::Pos, Op::SeekEnd(end(0)), Op::Pos, Op::Read(Sz::lit(1))],
            ];
            return Some(c);
        }
        let mut step = (residue as i64 - have as i64).rem_euclid(k.chunk as i64);
        if step > k.chunk as i64 / 2 {
            step -= k.chunk as i64;
        }
        len = (len as i64 + step).max(1000) as u64;
    }
    None
}

pub fn run(ctx: &mut Ctx) {
    if ctx.k.is_prod() && ctx.mine(11) {
        huge_compressed_stream(ctx);
    }
    if ctx.k.is_prod() {
        for (i, r) in [1u64, 2, 3, 0, 4].iter().enumerate() {
            if !ctx.mine(i as u64 + 12) {
                continue;
            }
            match stream_end_residue_case(ctx, *r, ctx.seed ^ 0xE2D ^ i as u64) {
                Some(c) => {
                    if (1..=3).contains(r) {
                        ctx.count("musthit:length_field_of_the_size_table_straddles_two_chunks");
                    }
                    if ctx.journal(&json!({"prop": "C11", "scenario": {"case": {"layer": c.layer, "len": c.len, "stream_end_residue": r}, "k": ctx.k.name()}})) {
                        run_case(ctx, &c);
                    }
                }
                None => ctx.count("tuning_not_converged"),
            }
        }
    }
    if ctx.k.is_prod() {
        let residues: &[i64] = if ctx.quick() { &[1, 0] } else { &[1, 0, 2, -1, 17, 4096] };
        for (i, r) in residues.iter().enumerate() {
            if !ctx.mine(i as u64 + 5) {
                continue;
            }
            match tuned_both_case(ctx, *r, ctx.seed ^ 0x7E1D ^ i as u64) {
                Some((c, unneeded)) => {
                    ctx.count("musthit:compressed_block_end_next_to_chunk_edge");
                    if unneeded && *r == 1 {
                        ctx.count("musthit:lone_unneeded_final_byte_starts_a_chunk");
                    }
                    if ctx.journal(&json!({"prop": "C11", "scenario": {"case": {"layer": c.layer, "len": c.len, "tuned_residue": r}, "k": ctx.k.name()}})) {
                        run_case(ctx, &c);
                    }
                }
                None => ctx.count("tuning_not_converged"),
            }
        }
    }
    let cs = cases(ctx);
    for (i, c) in cs.iter() {
        if !ctx.mine(*i) {
            continue;
        }
        if !ctx.time_left() {
            break;
        }
        if ctx.journal(&json!({"prop": "C11", "scenario": {"case": {"layer": c.layer, "len": c.len}, "k": ctx.k.name()}})) {
            run_case(ctx, c);
        }
    }
}

pub fn replay(ctx: &mut Ctx, scenario: &Value) -> Result<(), String> {
    if scenario["case"]["blocks"].is_u64() {
        huge_compressed_stream(ctx);
        return Ok(());
    }
    let c: Case = serde_json::from_value(scenario["case"].clone()).map_err(|e| e.to_string())?;
    // sizes and targets are symbolic: the same case is meaningful under any constant set
    run_case(ctx, &c);
    Ok(())
}
