//! C13 — results do not depend on how the byte sink and source split transfers.
use crate::ctx::{guarded, Ctx};
use crate::drv::{self, FileRead, Mode, Sched, Status, ThrottledSrc};
use crate::xlate;
use model::consts::{Sz, K};
use model::prng::Rng;
use model::prog::*;
use serde::{Deserialize, Serialize};
use serde_json::{json, Value};
use std::collections::BTreeMap;

#[derive(Clone, Debug, Serialize, Deserialize)]
pub enum Case {
    /// archive written through a throttled / interrupting destination
    Write { prog: Program, sched: Sched },
    /// archive read and repaired through a throttled source; `cut` = fraction (per mille) kept for the repair comparison
    Read { prog: Program, sched: Sched, cut_permille: u32 },
    /// same, the source cutting its reads `back` .. 0 bytes before the end of every compressed block
    /// (where the decoder may already have delivered the whole block)
    ReadAtBlockEnds { prog: Program, back: u32 },
}

pub fn scheds(rng: &mut Rng, writer: bool) -> Vec<Sched> {
    let mut v = vec![Sched::Max(1), Sched::Cycle(7), Sched::Rand(1 + rng.usize_below(5000), rng.next()), Sched::Max(2), Sched::Max(4095)];
    if writer {
        v.push(Sched::Interrupt(2));
        v.push(Sched::Interrupt(3));
    }
    v
}

pub fn cases(ctx: &Ctx) -> Vec<Case> {
    let k = ctx.k;
    let mut rng = Rng::derive(ctx.seed, &[0xC13]);
    let mut v = Vec::new();
    let n = match (k.is_prod(), ctx.quick()) {
        (false, true) => 4000,
        (false, false) => 60000,
        (true, true) => 320,
        (true, false) => 6000,
    };
    let mut sizes = crate::gen::small_sizes();
    sizes.extend([Sz::new(0, 1, -17), Sz::new(0, 1, 0), Sz::new(0, 2, 5)]);
    if !k.is_prod() {
        sizes.extend([Sz::new(1, 0, -3), Sz::new(1, 1, 0), Sz::new(2, 0, 7)]);
    }
    for i in 0..n {
        let layers = LAYER_COMBOS[i % 4];
        let nfiles = 1 + rng.usize_below(4);
        let level = *rng.pick(&[0u32, 1, 5]);
        let p = random_program(&mut rng, layers, level, nfiles, 3, &sizes, i % 7 == 0);
        let small = p.total_bytes(&k) <= 300_000;
        for w in [true, false] {
            let ss = scheds(&mut rng, w);
            let mut s = rng.pick(&ss).clone();
            if !small && matches!(s, Sched::Max(1) | Sched::Max(2)) {
                s = Sched::Cycle(7);
            }
            if w {
                v.push(Case::Write { prog: p.clone(), sched: s });
            } else {
                v.push(Case::Read { prog: p.clone(), sched: s, cut_permille: [1000u32, 1000, 900, 500, 997][i % 5] });
            }
        }
    }
    // must-hit: compress-only, one byte per read, repair; also with two blocks at production scale
    for (layers, sz) in [(2u8, Sz::lit(5000)), (3, Sz::lit(5000)), (2, Sz::new(0, 1, 50)), (2, Sz::new(1, 0, 300))] {
        if k.is_prod() && ctx.quick() && sz.b > 0 {
            continue;
        }
        for data in [DataKind::Text, DataKind::Random] {
            let sched = if sz.b > 0 { Sched::Cycle(7) } else { Sched::Max(1) };
            v.push(Case::Read { prog: single_file(layers, 5, sz, data, ctx.seed ^ 0x13), sched, cut_permille: 1000 });
        }
    }
    // short reads ending just before the end of full compressed blocks (incompressible content: the
    // block's last byte then only carries the end-of-stream bits)
    if k.is_prod() {
        for (i, layers) in [2u8, 3].into_iter().enumerate() {
            let two = Program {
                layers,
                level: 1,
                nrecip: 1,
                files: vec![FileSpec { name: NameKind::Plain(0), data: DataKind::Random }, FileSpec { name: NameKind::Plain(1), data: DataKind::Text }],
                ops: vec![Op::Add(0, Sz::new(2, 0, 300)), Op::Add(1, Sz::lit(3000)), Op::Finalize],
                seed: ctx.seed ^ 0xB10C ^ i as u64,
            };
            // steered: block 0 ends right after a chunk edge / an input window edge
            let grid = if layers == 3 { crate::shapes::Grid::Chunk } else { crate::shapes::Grid::Window };
            if let Some(p) = crate::shapes::block_end(&k, ctx.seed, layers, 1, grid, 1, true, false) {
                v.push(Case::ReadAtBlockEnds { prog: p.clone(), back: 2 });
                v.push(Case::Read { prog: p, sched: Sched::Max(4095), cut_permille: 1000 });
            }
            v.push(Case::ReadAtBlockEnds { prog: two.clone(), back: 1 });
            if !ctx.quick() {
                v.push(Case::ReadAtBlockEnds { prog: two, back: 64 });
            }
        }
    }
    v
}

type RepairView = Result<(Status, BTreeMap<String, FileRead>), String>;

fn class(r: &RepairView) -> String {
    match r {
        Ok((st, files)) => format!("{}:{}files:{}bytes", st.class(), files.len(), files.values().map(|f| f.data.len()).sum::<usize>()),
        Err(e) => format!("err:{}", e.split(':').next().unwrap_or("?")),
    }
}

pub fn run_case(ctx: &mut Ctx, c: &Case) {
    let k = ctx.k;
    let scen = |p: &Program| json!({"case": c, "k": k.name(), "facts": xlate::facts(p, &k)});
    match c {
        Case::Write { prog: p, sched } => {
            ctx.eval(p.fingerprint() ^ model::prng::fnv(format!("w{sched:?}").as_bytes()), true);
            ctx.count(&format!("write:{}", format!("{sched:?}").split('(').next().unwrap_or("?")));
            ctx.sample(|| json!({"write": {"prog": p, "sched": sched}}));
            let r = guarded(|| -> Result<(), (String, String)> {
                let b = drv::build(p, &k, sched.clone()).map_err(|e| ("writing-failed".to_string(), e))?;
                let mut rng = Rng::new(p.seed);
                let got = drv::read_all(&b.raw, &b.sks, &mut rng).map_err(|e| ("written-archive-unreadable".to_string(), e))?;
                drv::compare_maps(&b.expected, &got).map_err(|e| ("written-archive-differs".to_string(), e))
            });
            let sk = format!("{sched:?}");
            let sk = sk.split('(').next().unwrap_or("?").to_string();
            match r {
                Ok(Ok(())) => ctx.count("held:write"),
                Ok(Err((cls, msg))) => ctx.violation("C13", &format!("{cls}:{sk}:layers{}", p.layers), scen(p), json!({"message": msg})),
                Err((loc, msg)) => ctx.violation("C13", &format!("write-panic:{loc}:{sk}"), scen(p), json!({"panic": msg})),
            }
        }
        Case::ReadAtBlockEnds { prog: p, back } => {
            let Ok(Ok(b)) = guarded(|| drv::build(p, &k, Sched::All)) else {
                ctx.count("build_failed");
                return;
            };
            let Ok(d) = model::fmt::decode_archive(&k, &b.raw, &b.sks) else {
                ctx.count("build_failed");
                return;
            };
            let Some(comp) = &d.comp else { return };
            let body = &b.raw[d.header.len..];
            let plain_of_enc: &[u8] = d.enc_plain.as_deref().unwrap_or(body);
            let mut offs = Vec::new();
            for (i, sz) in comp.sizes.iter().enumerate() {
                let (start, end) = (comp.offsets[i], comp.offsets[i] + *sz as usize);
                if i + 1 < comp.sizes.len() && model::fmt::brotli_decompress_prefix(&plain_of_enc[start..end - 1]).len() as u64 == k.block {
                    ctx.count("musthit:full_block_whose_last_byte_is_not_needed");
                }
                for dlt in 0..=u64::from(*back) {
                    let cpos = end as u64 - dlt;
                    // position in the file: under encryption every chunk is followed by its tag
                    let fpos = if p.layers & 1 != 0 { cpos / k.chunk * k.chunk_tag() + cpos % k.chunk } else { cpos };
                    offs.push(d.header.len as u64 + fpos);
                }
            }
            offs.sort_unstable();
            run_case(ctx, &Case::Read { prog: p.clone(), sched: Sched::StopAt(offs), cut_permille: 1000 });
        }
        Case::Read { prog: p, sched, cut_permille } => {
            ctx.eval(p.fingerprint() ^ model::prng::fnv(format!("r{sched:?}{cut_permille}").as_bytes()), true);
            let sk = format!("{sched:?}");
            let sk = sk.split('(').next().unwrap_or("?").to_string();
            ctx.count(&format!("read:{sk}"));
            if p.layers == 2 && matches!(sched, Sched::Max(1)) {
                ctx.count("musthit:compress_only_one_byte_source_repair");
            }
            ctx.sample(|| json!({"read": {"prog": p, "sched": sched, "cut_permille": cut_permille}}));
            let Ok(Ok(b)) = guarded(|| drv::build(p, &k, Sched::All)) else {
                ctx.count("build_failed");
                return;
            };
            // (1) normal reader through the throttled source
            let r = guarded(|| -> Result<(), (String, String)> {
                let mut rng = Rng::new(p.seed);
                let got = drv::read_all_from(ThrottledSrc::new(&b.raw, sched.clone()), &b.sks, &mut rng).map_err(|e| ("throttled-read-failed".to_string(), e))?;
                drv::compare_maps(&b.expected, &got).map_err(|e| ("throttled-read-differs".to_string(), e))
            });
            match r {
                Ok(Ok(())) => ctx.count("held:read"),
                Ok(Err((cls, msg))) => ctx.violation("C13", &format!("{cls}:{sk}:layers{}", p.layers), scen(p), json!({"message": msg})),
                Err((loc, msg)) => ctx.violation("C13", &format!("read-panic:{loc}:{sk}"), scen(p), json!({"panic": msg})),
            }
            // (2) repair: memory vs throttled source, both modes, intact and cut
            let n = (b.raw.len() as u64 * u64::from(*cut_permille) / 1000) as usize;
            let data = &b.raw[..n];
            let modes: &[Mode] = if p.layers & 1 != 0 { &[Mode::Auth, Mode::Unauth] } else { &[Mode::Auth] };
            for &mode in modes {
                let mut rng = Rng::new(p.seed ^ 7);
                let mem: Result<RepairView, _> = guarded(|| drv::repair_and_read(data, &b.sks, mode, &mut rng));
                let thr: Result<RepairView, _> = guarded(|| drv::repair_and_read(ThrottledSrc::new(data, sched.clone()), &b.sks, mode, &mut rng));
                let ms = if mode == Mode::Auth { "auth" } else { "unauth" };
                match (mem, thr) {
                    (Ok(m), Ok(t)) => {
                        let same = match (&m, &t) {
                            (Ok((ms_, mf)), Ok((ts, tf))) => ms_.coarse() == ts.coarse() && mf == tf,
                            (Err(_), Err(_)) => true,
                            _ => false,
                        };
                        if same {
                            ctx.count("held:repair");
                        } else {
                            ctx.violation(
                                "C13",
                                &format!("repair-result-depends-on-source:{sk}:layers{}:{ms}:{}", p.layers, if *cut_permille == 1000 { "intact" } else { "cut" }),
                                scen(p),
                                json!({"from_memory": class(&m), "from_throttled_source": class(&t), "bytes_given": n}),
                            );
                        }
                    }
                    (Err((loc, msg)), _) | (_, Err((loc, msg))) => {
                        ctx.violation("C08", &format!("panic:{loc}:{}", crate::ctx::msg_class(&msg)), scen(p), json!({"panic": msg, "during": "repair through a throttled source"}));
                    }
                }
            }
        }
    }
}

pub fn run(ctx: &mut Ctx) {
    let cs = cases(ctx);
    for (i, c) in cs.iter().enumerate() {
        if !ctx.mine(i as u64) {
            continue;
        }
        if !ctx.time_left() {
            break;
        }
        if ctx.journal(&json!({"prop": "C13", "scenario": {"case": c, "k": ctx.k.name()}})) {
            run_case(ctx, c);
        }
    }
}

pub fn replay(ctx: &mut Ctx, scenario: &Value) -> Result<(), String> {
    let c: Case = serde_json::from_value(scenario["case"].clone()).map_err(|e| e.to_string())?;
    let from = scenario["k"].as_str().and_then(K::by_name).unwrap_or(ctx.k);
    if from == ctx.k {
        run_case(ctx, &c);
        return Ok(());
    }
    let facts: Vec<xlate::Fact> = serde_json::from_value(scenario["facts"].clone()).unwrap_or_default();
    let (prog, mk): (&Program, Box<dyn Fn(Program) -> Case>) = match &c {
        Case::Write { prog, sched } => {
            let s = sched.clone();
            (prog, Box::new(move |p| Case::Write { prog: p, sched: s.clone() }))
        }
        Case::Read { prog, sched, cut_permille } => {
            let s = sched.clone();
            let cp = *cut_permille;
            (prog, Box::new(move |p| Case::Read { prog: p, sched: s.clone(), cut_permille: cp }))
        }
        Case::ReadAtBlockEnds { prog, back } => {
            let bk = *back;
            (prog, Box::new(move |p| Case::ReadAtBlockEnds { prog: p, back: bk }))
        }
    };
    for v in xlate::variants(prog, &facts, &from, &ctx.k).into_iter().take(4) {
        let tb = v.total_bytes(&ctx.k);
        if tb > 8 << 20 {
            continue;
        }
        let mut cc = mk(v);
        // one byte per call on megabytes is only slow, not more revealing
        if tb > 300_000 {
            if let Case::Write { sched, .. } | Case::Read { sched, .. } = &mut cc {
                if matches!(sched, Sched::Max(1) | Sched::Max(2)) {
                    *sched = Sched::Cycle(7);
                }
            }
        }
        run_case(ctx, &cc);
    }
    Ok(())
}
