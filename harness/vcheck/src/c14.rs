//! C14 — after a flush, what was appended so far survives a cut.
use crate::ctx::{guarded, Ctx};
use crate::drv::{self, Mode, Sched};
use crate::xlate;
use model::consts::{Sz, K};
use model::fmt;
use model::prng::Rng;
use model::prog::*;
use serde::{Deserialize, Serialize};
use serde_json::{json, Value};
use std::collections::BTreeMap;

#[derive(Clone, Debug, Serialize, Deserialize)]
pub struct Case {
    pub prog: Program,
}

fn flush_after_each(layers: u8, level: u32, data: DataKind, pieces: &[Sz], seed: u64) -> Program {
    let mut ops = vec![Op::Start(0)];
    for s in pieces {
        ops.push(Op::Append(0, *s));
        ops.push(Op::Flush);
    }
    ops.push(Op::End(0));
    ops.push(Op::Flush);
    ops.push(Op::Finalize);
    Program { layers, level, nrecip: 1, files: vec![FileSpec { name: NameKind::Plain(0), data }], ops, seed }
}

pub fn cases(ctx: &Ctx) -> Vec<Case> {
    let k = ctx.k;
    let mut rng = Rng::derive(ctx.seed, &[0xC14]);
    let mut v = Vec::new();
    let kinds = [DataKind::Constant(0x61), DataKind::Text, DataKind::Random, DataKind::Period(5)];
    let levels: &[u32] = if ctx.quick() { &[0, 5] } else { &[0, 1, 5, 9, 11] };
    for layers in LAYER_COMBOS {
        for &level in levels {
            if layers & 2 == 0 && level != levels[0] {
                continue;
            }
            for data in kinds {
                // flush after 1 byte, small appends, at chunk edges
                v.push(Case { prog: flush_after_each(layers, level, data, &[Sz::lit(1)], ctx.seed) });
                v.push(Case { prog: flush_after_each(layers, level, data, &[Sz::lit(1), Sz::lit(1), Sz::lit(30), Sz::lit(0), Sz::lit(200)], ctx.seed ^ 1) });
                v.push(Case { prog: flush_after_each(layers, level, data, &[Sz::new(0, 1, -17), Sz::new(0, 1, 0), Sz::lit(5), Sz::new(0, 1, -22)], ctx.seed ^ 2) });
                // must-hit of the statement: 200 000 highly compressible bytes then flush
                if k.is_prod() || !ctx.quick() {
                    v.push(Case { prog: flush_after_each(layers, level, data, &[Sz::lit(200_000)], ctx.seed ^ 3) });
                } else {
                    v.push(Case { prog: flush_after_each(layers, level, data, &[Sz::new(1, 4, 8)], ctx.seed ^ 3) });
                }
                // across a block edge
                if !k.is_prod() || !ctx.quick() {
                    if level < 9 {
                        v.push(Case { prog: flush_after_each(layers, level, data, &[Sz::new(1, 0, -40), Sz::lit(30), Sz::lit(30), Sz::new(0, 3, 0)], ctx.seed ^ 4) });
                    }
                }
            }
        }
    }
    // flush when the stream position (what the layers below the block stream have received)
    // is exactly on / next to a chunk or block edge
    let edges = [Sz::new(0, 1, 0), Sz::new(0, 2, 0), Sz::new(1, 0, 0), Sz::new(2, 0, 0)];
    for layers in LAYER_COMBOS {
        for (ei, e) in edges.iter().enumerate() {
            if k.is_prod() && ctx.quick() && e.b > 1 {
                continue;
            }
            for d in [-1i64, 0, 1] {
                for data in [DataKind::Random, DataKind::Constant(0x62)] {
                    let level = if matches!(data, DataKind::Random) { 1 } else { 5 };
                    let base = flush_after_each(layers, level, data, &[Sz::lit(1), Sz::lit(30)], ctx.seed ^ (ei as u64 * 16 + (d + 1) as u64));
                    if let Some(p) = crate::gen::with_size_at(base, &k, 0, "piece_end", Sz::new(e.b, e.c, e.d + d)) {
                        v.push(Case { prog: p });
                    }
                }
            }
        }
    }
    // two consecutive flushes an exact multiple of a block / of a chunk apart (a content block is a 17-byte
    // header + the piece): a writer that decides from the offset inside the current block / chunk whether
    // anything is pending sees the same offset twice
    for layers in LAYER_COMBOS {
        for data in [DataKind::Random, DataKind::Constant(0x63)] {
            let level = if matches!(data, DataKind::Random) { 1 } else { 5 };
            for (i, gap) in [Sz::new(1, 0, -17), Sz::new(2, 0, -17), Sz::new(0, 1, -17), Sz::new(0, 3, -17)].into_iter().enumerate() {
                if k.is_prod() && ctx.quick() && gap.b > 1 {
                    continue;
                }
                v.push(Case { prog: flush_after_each(layers, level, data, &[Sz::new(0, 0, 100), gap, Sz::lit(40)], ctx.seed ^ 0xF1F1 ^ i as u64) });
                v.push(Case { prog: flush_after_each(layers, level, data, &[Sz::new(0, 1, 9), gap, gap, Sz::lit(7)], ctx.seed ^ 0xF2F2 ^ i as u64) });
            }
        }
    }
    // random programs with flushes between calls
    let n = match (k.is_prod(), ctx.quick()) {
        (false, true) => 4000,
        (false, false) => 150000,
        (true, true) => 480,
        (true, false) => 30000,
    };
    let mut sizes = crate::gen::small_sizes();
    sizes.extend([Sz::new(0, 1, -17), Sz::new(0, 1, 0), Sz::new(0, 2, 5)]);
    if !k.is_prod() {
        sizes.extend([Sz::new(1, 0, -3), Sz::new(1, 1, 0)]);
    }
    for i in 0..n {
        let layers = LAYER_COMBOS[i % 4];
        let level = *rng.pick(&[0u32, 1, 5]);
        let nfiles = 1 + rng.usize_below(4);
        v.push(Case { prog: random_program(&mut rng, layers, level, nfiles, 4, &sizes, true) });
    }
    v
}

/// Plaintext of the encryption layer for a snapshot taken at a flush: complete
/// chunks (tag present and verified) and the bytes of the chunk in progress
fn snapshot_plain(k: &K, key: &[u8; 32], nonce: &[u8; 8], body: &[u8]) -> (Vec<u8>, usize) {
    let ct = k.chunk as usize + 16;
    let mut plain = Vec::new();
    let mut complete = 0usize;
    for (i, piece) in body.chunks(ct).enumerate() {
        let n = fmt::chunk_nonce(nonce, i as u32);
        if piece.len() == ct {
            if let Some(p) = fmt::gcm_open(key, &n, piece) {
                plain.extend(p);
                complete = plain.len();
                continue;
            }
        }
        let dl = piece.len().min(k.chunk as usize);
        plain.extend(fmt::ctr_keystream_xor(key, &n, &piece[..dl]));
    }
    (plain, complete)
}

pub fn run_case(ctx: &mut Ctx, c: &Case) {
    let k = ctx.k;
    let p = &c.prog;
    let Ok(Ok(b)) = guarded(|| drv::build(p, &k, Sched::All)) else {
        ctx.count("build_failed");
        return;
    };
    if b.flush_marks.is_empty() {
        return;
    }
    let hl = match fmt::dec_header(&b.raw) {
        Ok(h) => h.len,
        Err(_) => return,
    };
    ctx.sample(|| json!({"prog": p, "flushes": b.flush_marks.len(), "first_marks": b.flush_marks.iter().take(3).map(|m| m.0).collect::<Vec<_>>()}));
    let mut rng = Rng::new(p.seed ^ 14);
    for (fi, (mark, appended)) in b.flush_marks.iter().enumerate() {
        if !ctx.time_left() {
            return;
        }
        let total: usize = appended.values().sum();
        ctx.eval(model::prng::fnv_mix(p.fingerprint(), fi as u64), total > 0);
        let snap = &b.raw[..*mark];
        if p.layers & 2 != 0 && total >= 150_000 && p.files.iter().any(|f| matches!(f.data, DataKind::Constant(_))) {
            ctx.count("musthit:compressible_200000_then_flush");
        }
        ctx.count(&format!("flush:layers{}", p.layers));
        if p.layers & 2 != 0 {
            // position of the block stream at this flush, from the layout of the program
            let lay = layout(p, &k);
            let nth_flush_pos = {
                let mut seen = 0usize;
                let mut pos = 0u64;
                let mut pi = 0usize;
                let mut found = None;
                for op in &p.ops {
                    match op {
                        Op::Append(..) | Op::Add(..) => {
                            if let Some(pt) = lay.points.iter().filter(|pt| pt.kind == "piece_end").nth(pi) {
                                if pt.piece == Some(pi) {
                                    pos = pt.pos;
                                }
                            }
                            pi += 1;
                        }
                        Op::Flush => {
                            if seen == fi {
                                found = Some(pos);
                            }
                            seen += 1;
                        }
                        _ => {}
                    }
                }
                found
            };
            if nth_flush_pos.is_some_and(|x| x > 0 && x % k.block == 0) {
                ctx.count("musthit:flush_exactly_on_block_edge");
            }
        }
        ctx.max("snapshot_bytes", *mark as u64);
        let scen = || json!({"case": c, "k": k.name(), "facts": xlate::facts(p, &k), "flush_index": fi, "snapshot_len": mark});
        // lower bounds
        let full: BTreeMap<String, usize> = appended.clone();
        let auth_bound: BTreeMap<String, usize> = if p.layers & 1 != 0 {
            let (plain, complete) = snapshot_plain(&k, &b.key.unwrap(), &b.nonce.unwrap(), &snap[hl.min(snap.len())..]);
            let usable = &plain[..complete];
            let stream = if p.layers & 2 != 0 { fmt::dec_compress_streams_prefix(usable) } else { usable.to_vec() };
            fmt::walk(&stream).files.into_iter().map(|(n, f)| (n, f.data.len())).collect()
        } else {
            full.clone()
        };
        let modes: &[Mode] = if p.layers & 1 != 0 { &[Mode::Unauth, Mode::Auth] } else { &[Mode::Auth] };
        for &mode in modes {
            let ms = if mode == Mode::Auth && p.layers & 1 != 0 { "auth" } else if p.layers & 1 != 0 { "unauth" } else { "plain" };
            let bound = if ms == "auth" { &auth_bound } else { &full };
            // one snapshot in three is repaired from a source that returns short reads (pipe, socket)
            let sched = match (fi + p.seed as usize) % 6 {
                0 => Sched::Max(50),
                1 => Sched::Cycle(7),
                _ => Sched::All,
            };
            if !matches!(sched, Sched::All) {
                ctx.count("snapshot_repaired_from_short_read_source");
            }
            let r = guarded(|| drv::repair_and_read(drv::ThrottledSrc::new(snap, if snap.len() > 600_000 { Sched::Max(4095) } else { sched.clone() }), &b.sks, mode, &mut rng));
            match r {
                Err((loc, msg)) => ctx.violation("C08", &format!("panic:{loc}:{}", crate::ctx::msg_class(&msg)), scen(), json!({"panic": msg, "during": "repair of a flush snapshot"})),
                Ok(Err(e)) => {
                    if bound.values().any(|n| *n > 0) {
                        ctx.violation("C14", &format!("snapshot-not-repairable:layers{}:{ms}", p.layers), scen(), json!({"error": e, "appended_before_flush": total}));
                    }
                }
                Ok(Ok((_st, files))) => {
                    let mut ok = true;
                    for (name, need) in bound {
                        let got = files.get(name).map_or(0, |f| f.data.len());
                        let prefix_ok = files.get(name).is_none_or(|f| b.expected.get(name).is_some_and(|e| e.starts_with(&f.data)));
                        if got < *need || !prefix_ok {
                            ok = false;
                            let ent = p.files.iter().find(|f| f.name.render() == *name).map(|f| format!("{:?}", f.data)).unwrap_or_default();
                            let ent = ent.split('(').next().unwrap_or("?").to_string();
                            ctx.violation(
                                "C14",
                                &format!("bytes-before-flush-lost:layers{}:{ms}:{ent}", p.layers),
                                scen(),
                                json!({"file": drv::short(name), "appended_before_flush": appended.get(name), "required": need, "recovered": got, "snapshot_len": mark}),
                            );
                            break;
                        }
                    }
                    if ok {
                        ctx.count(&format!("held:{ms}"));
                    }
                }
            }
        }
    }
}

/// Production constants: data-dependent alignments that sampling does not reach.
/// (a) compression over encryption, incompressible appends: the flush comes when the chunk in
///     progress holds `r` bytes (r below / at / above the tag length), small appends before it so
///     that the repair is reading small blocks there;
/// (b) the first complete compressed block ends `r` bytes after an edge of the repair's 4 KiB
///     input window, more data and a flush following.
fn tuned_cases(ctx: &mut Ctx) -> Vec<Case> {
    let k = ctx.k;
    let mut v = Vec::new();
    let file = |data| vec![FileSpec { name: NameKind::Plain(0), data }];
    let in_chunk: &[i64] = if ctx.quick() { &[8, 15] } else { &[1, 2, 8, 15, 16, 17, 0] };
    for (i, r) in in_chunk.iter().enumerate() {
        if !ctx.mine(1000 + i as u64) {
            continue;
        }
        let seed = ctx.seed ^ 0x14A ^ i as u64;
        let mk = |x: i64| {
            let mut ops = vec![Op::Start(0), Op::Append(0, Sz::lit(120_000)), Op::Append(0, Sz::lit(x))];
            ops.extend((0..18).map(|_| Op::Append(0, Sz::lit(500))));
            ops.extend([Op::Flush, Op::End(0), Op::Flush, Op::Finalize]);
            Program { layers: 3, level: 1, nrecip: 1, files: file(DataKind::Random), ops, seed }
        };
        let ct = k.chunk_tag() as i64;
        let obs = |b: &drv::Built| -> Option<i64> {
            let hl = fmt::dec_header(&b.raw).ok()?.len;
            Some(b.flush_marks.first()?.0 as i64 - hl as i64)
        };
        match crate::tune::tune(&mk, &k, 5000, ct, ct + *r, 1, &obs, 8) {
            Some((p, _)) => {
                ctx.count("musthit:flush_with_less_than_a_tag_in_the_chunk_in_progress");
                v.push(Case { prog: p });
            }
            None => ctx.count("tuning_not_converged"),
        }
    }
    let after_window: &[i64] = if ctx.quick() { &[1] } else { &[1, 0, 2, 4095] };
    for (i, r) in after_window.iter().enumerate() {
        for (j, layers) in [2u8, 3].into_iter().enumerate() {
            if !ctx.mine(1100 + (2 * i + j) as u64) {
                continue;
            }
            // zeros first (their number steers the size), incompressible data over the block edge
            let mut found = false;
            for attempt in 0..6u64 {
                let seed = ctx.seed ^ 0x14B ^ (i as u64) << 8 ^ attempt;
                let mk = |z: i64| Program {
                    layers,
                    level: 1,
                    nrecip: 1,
                    files: vec![FileSpec { name: NameKind::Plain(0), data: DataKind::Constant(0) }, FileSpec { name: NameKind::Plain(1), data: DataKind::Random }],
                    ops: vec![Op::Add(0, Sz::lit(z)), Op::Start(1), Op::Append(1, Sz::new(1, 0, 0)), Op::Append(1, Sz::lit(1 << 20)), Op::Flush, Op::End(1), Op::Flush, Op::Finalize],
                    seed,
                };
                let first_block = |b: &drv::Built| -> Option<(Vec<u8>, fmt::Decoded)> {
                    let d = fmt::decode_archive(&k, &b.raw, &b.sks).ok()?;
                    let comp = d.comp.as_ref()?;
                    let body = &b.raw[d.header.len..];
                    let cs: &[u8] = d.enc_plain.as_deref().unwrap_or(body);
                    Some((cs[comp.offsets[0]..comp.offsets[0] + comp.sizes[0] as usize].to_vec(), d))
                };
                let obs = |b: &drv::Built| -> Option<i64> { first_block(b).map(|(blk, _)| blk.len() as i64) };
                let Some((p, b)) = crate::tune::tune(&mk, &k, 200_000 + 97 * attempt as i64, 4096, *r, -1, &obs, 8) else { continue };
                let Some((blk, _)) = first_block(&b) else { continue };
                if fmt::brotli_decompress_prefix(&blk[..blk.len() - 1]).len() as u64 == k.block {
                    ctx.count("musthit:block_end_after_input_window_edge_last_byte_not_needed");
                    v.push(Case { prog: p });
                    found = true;
                    break;
                }
            }
            if !found {
                ctx.count("tuning_not_converged");
            }
        }
    }
    v
}

pub fn run(ctx: &mut Ctx) {
    if ctx.k.is_prod() {
        for c in tuned_cases(ctx) {
            if ctx.journal(&json!({"prop": "C14", "scenario": {"case": c, "k": ctx.k.name()}})) {
                run_case(ctx, &c);
            }
        }
    }
    let cs = cases(ctx);
    for (i, c) in cs.iter().enumerate() {
        if !ctx.mine(i as u64) {
            continue;
        }
        if !ctx.time_left() {
            break;
        }
        if ctx.journal(&json!({"prop": "C14", "scenario": {"case": c, "k": ctx.k.name()}})) {
            run_case(ctx, c);
        }
    }
}

pub fn replay(ctx: &mut Ctx, scenario: &Value) -> Result<(), String> {
    let c: Case = serde_json::from_value(scenario["case"].clone()).map_err(|e| e.to_string())?;
    let from = scenario["k"].as_str().and_then(K::by_name).unwrap_or(ctx.k);
    if from == ctx.k {
        run_case(ctx, &c);
        return Ok(());
    }
    let facts: Vec<xlate::Fact> = serde_json::from_value(scenario["facts"].clone()).unwrap_or_default();
    for v in xlate::variants(&c.prog, &facts, &from, &ctx.k).into_iter().take(4) {
        if v.total_bytes(&ctx.k) > 32 << 20 {
            continue;
        }
        run_case(ctx, &Case { prog: v });
    }
    Ok(())
}
