//! C18 — key files: generation and parsing round-trip, parsing is total.
use crate::alloc;
use crate::ctx::{guarded, msg_class, Ctx};
use curve25519_dalek::edwards::EdwardsPoint;
use curve25519_dalek::scalar::clamp_integer;
use curve25519_parser as cp;
use model::prng::Rng;
use serde::{Deserialize, Serialize};
use serde_json::{json, Value};
use sha2::{Digest, Sha512};
use x25519_dalek::{PublicKey, StaticSecret};

pub const PRIV_X: &[u8] = b"\x30\x2e\x02\x01\x00\x30\x05\x06\x03\x2b\x65\x6e\x04\x22\x04\x20";
pub const PUB_X: &[u8] = b"\x30\x2a\x30\x05\x06\x03\x2b\x65\x6e\x03\x21\x00";
pub const PRIV_ED: &[u8] = b"\x30\x2e\x02\x01\x00\x30\x05\x06\x03\x2b\x65\x70\x04\x22\x04\x20";
pub const PUB_ED: &[u8] = b"\x30\x2a\x30\x05\x06\x03\x2b\x65\x70\x03\x21\x00";

#[derive(Clone, Debug, Serialize, Deserialize)]
pub enum Case {
    /// generated pair: DER and PEM of both halves
    Pair(u64),
    /// generated pair whose 32 private bytes follow a pattern (all zero, ASCII text, high bits, ...)
    PairPattern(u8, u64),
    /// Ed25519 private/public pair built by the harness from a 32-byte seed
    Ed(u64),
    /// PEM presentation variants of a valid key
    PemVariant(u64, u8),
    /// several PEM public keys in one buffer
    Many(u64, u8),
    /// totality: one mutated input through every parser
    Hostile(Vec<u8>),
    /// an input that is certainly not a valid key file / key list for the parsers of the mask
    /// (bit 0 private DER, 1 public DER, 2 private auto, 3 public auto, 4 list of PEM public keys)
    MustRefuse { data: Vec<u8>, what: String, parsers: u8 },
}

struct SeedRng(Rng, u8);
impl rand_core::RngCore for SeedRng {
    fn next_u32(&mut self) -> u32 {
        self.0.next() as u32
    }
    fn next_u64(&mut self) -> u64 {
        self.0.next()
    }
    fn fill_bytes(&mut self, dest: &mut [u8]) {
        self.0.fill(dest);
        pattern(self.1, dest, &mut self.0);
    }
}

/// structured key material: what random draws never produce
pub fn pattern(id: u8, dest: &mut [u8], rng: &mut Rng) {
    match id {
        0 => {}
        1 => dest.fill(0),
        2 => dest.fill(1),
        3 => dest.fill(0x7f),
        4 => dest.fill(0x80),
        5 => dest.fill(0xff),
        6 => {
            // printable ASCII text
            for b in dest.iter_mut() {
                *b = b' ' + (rng.below(95) as u8);
            }
        }
        7 => {
            // valid multi-byte UTF-8
            let t = "clé privée 日本語 שלום — key material!".as_bytes();
            for (i, b) in dest.iter_mut().enumerate() {
                *b = t[i % t.len()];
            }
        }
        8 => {
            dest[0] = 0;
            dest[1] = 0;
        }
        9 => {
            let n = dest.len();
            dest[n - 1] = 0;
        }
        10 => {
            for b in dest.iter_mut() {
                *b &= 0x7f;
            }
        }
        _ => {
            for (i, b) in dest.iter_mut().enumerate() {
                *b = i as u8;
            }
        }
    }
}
impl rand_core::CryptoRng for SeedRng {}

pub fn b64(data: &[u8]) -> String {
    let t = b"ABCDEFGHIJKLMNOPQRSTUVWXYZabcdefghijklmnopqrstuvwxyz0123456789+/";
    let mut s = String::new();
    for c in data.chunks(3) {
        let b = [c[0], *c.get(1).unwrap_or(&0), *c.get(2).unwrap_or(&0)];
        s.push(t[(b[0] >> 2) as usize] as char);
        s.push(t[(((b[0] & 3) << 4) | (b[1] >> 4)) as usize] as char);
        s.push(if c.len() > 1 { t[(((b[1] & 15) << 2) | (b[2] >> 6)) as usize] as char } else { '=' });
        s.push(if c.len() > 2 { t[(b[2] & 63) as usize] as char } else { '=' });
    }
    s
}

pub fn pem(tag: &str, der: &[u8], width: usize, eol: &str, final_eol: bool) -> String {
    let b = b64(der);
    let mut s = format!("-----BEGIN {tag}-----{eol}");
    for line in b.as_bytes().chunks(width.max(1)) {
        s.push_str(std::str::from_utf8(line).unwrap());
        s.push_str(eol);
    }
    s.push_str(&format!("-----END {tag}-----"));
    if final_eol {
        s.push_str(eol);
    }
    s
}

fn ed_pair(seed: &[u8; 32]) -> (Vec<u8>, Vec<u8>, [u8; 32], [u8; 32]) {
    let h = Sha512::digest(seed);
    let mut sc = [0u8; 32];
    sc.copy_from_slice(&h[..32]);
    let clamped = clamp_integer(sc);
    let a = EdwardsPoint::mul_base_clamped(sc);
    let mut priv_der = PRIV_ED.to_vec();
    priv_der.extend_from_slice(seed);
    let mut pub_der = PUB_ED.to_vec();
    pub_der.extend_from_slice(a.compress().as_bytes());
    (priv_der, pub_der, clamped, a.to_montgomery().to_bytes())
}

pub fn cases(ctx: &Ctx) -> Vec<Case> {
    let mut v = Vec::new();
    if !ctx.k.is_prod() {
        return v;
    }
    let mut rng = Rng::derive(ctx.seed, &[0xC18]);
    let n = if ctx.quick() { 12000 } else { 1_500_000 };
    for _ in 0..n {
        v.push(Case::Pair(rng.next()));
        v.push(Case::Ed(rng.next()));
    }
    for pat in 1..=12u8 {
        for _ in 0..(if ctx.quick() { 20 } else { 2000 }) {
            v.push(Case::PairPattern(pat, rng.next()));
        }
    }
    for _ in 0..n / 10 {
        for var in 0..8 {
            v.push(Case::PemVariant(rng.next(), var));
        }
        v.push(Case::Many(rng.next(), 1 + rng.below(6) as u8));
        v.push(Case::Many(rng.next(), 0x40 | (2 + rng.below(5) as u8)));
    }
    // totality: exhaustive single-byte substitutions of the four DER forms
    let seed = rng.array32();
    let (ed_priv, ed_pub, _, _) = ed_pair(&seed);
    let mut x_priv = PRIV_X.to_vec();
    x_priv.extend_from_slice(&seed);
    let mut x_pub = PUB_X.to_vec();
    x_pub.extend_from_slice(&crate::c19::x25519_base(&seed));
    let bases: Vec<Vec<u8>> = vec![x_priv.clone(), x_pub.clone(), ed_priv, ed_pub];
    for b in &bases {
        for i in 0..b.len() {
            for val in 0..=255u8 {
                if b[i] != val {
                    let mut m = b.clone();
                    m[i] = val;
                    v.push(Case::Hostile(m));
                }
            }
        }
        for cut in 0..=b.len() {
            v.push(Case::Hostile(b[..cut].to_vec()));
            let mut ext = b.clone();
            ext.extend(rng.bytes(cut % 7));
            v.push(Case::Hostile(ext));
        }
        // PEM forms, mutated
        for tag in ["PRIVATE KEY", "PUBLIC KEY", "CERTIFICATE", ""] {
            let p = pem(tag, b, 64, "\n", true).into_bytes();
            v.push(Case::Hostile(p.clone()));
            for i in 0..p.len() {
                for val in [0u8, b'-', b'=', b'\n', 0xff, b'A'] {
                    let mut m = p.clone();
                    m[i] = val;
                    v.push(Case::Hostile(m));
                }
            }
            for cut in 0..p.len() {
                v.push(Case::Hostile(p[..cut].to_vec()));
            }
        }
    }
    // certainly-invalid inputs. (1) key lists holding a well-formed PEM block that is not a public key
    for i in 0..(if ctx.quick() { 40 } else { 400 }) {
        let n = 1 + rng.usize_below(4);
        let at = rng.usize_below(n + 1);
        let mut text = String::new();
        for j in 0..=n {
            if j == at {
                let (tag, der): (&str, Vec<u8>) = match i % 4 {
                    0 => ("PRIVATE KEY", x_priv.clone()),
                    1 => ("CERTIFICATE", x_pub.clone()),
                    2 => ("PUBLIC KEYS", x_pub.clone()),
                    _ => ("EC PRIVATE KEY", bases[2].clone()),
                };
                text.push_str(&pem(tag, &der, 64, "\n", true));
            }
            if j < n {
                let mut d = PUB_X.to_vec();
                d.extend_from_slice(&crate::c19::x25519_base(&rng.array32()));
                text.push_str(&pem("PUBLIC KEY", &d, 64, "\n", true));
            }
        }
        v.push(Case::MustRefuse { data: text.into_bytes(), what: "key-list-with-a-block-that-is-not-a-public-key".into(), parsers: 0b1_0000 });
    }
    // (2) BER encodings that are not DER of otherwise correct keys
    for (bi, b) in bases.iter().enumerate() {
        let private = bi % 2 == 0;
        let mask: u8 = if private { 0b0_0101 } else { 0b1_1010 };
        let mut forms: Vec<(&str, Vec<u8>)> = Vec::new();
        // indefinite-length outer SEQUENCE, end-of-contents octets present
        let mut t = vec![0x30, 0x80];
        t.extend_from_slice(&b[2..]);
        t.extend_from_slice(&[0, 0]);
        forms.push(("indefinite-length-outer-sequence", t));
        // indefinite-length AlgorithmIdentifier (30 05 06 03 2b 65 xx)
        if let Some(pos) = b.windows(4).position(|w| w == [0x30, 0x05, 0x06, 0x03]) {
            let mut t = b.clone();
            t[pos + 1] = 0x80;
            t.splice(pos + 7..pos + 7, [0u8, 0]);
            t[1] += 2;
            forms.push(("indefinite-length-algorithm-identifier", t));
        }
        if private {
            // version INTEGER with a redundant leading zero: 02 01 00 -> 02 02 00 00
            let mut t = b.clone();
            t.splice(2..5, [0x02u8, 0x02, 0x00, 0x00]);
            t[1] += 1;
            forms.push(("integer-with-redundant-leading-zero", t));
        } else {
            // BIT STRING announcing one unused bit while that bit of the last byte is set
            let mut t = b.clone();
            let l = t.len();
            t[11] = 0x01;
            t[l - 1] |= 1;
            forms.push(("bit-string-with-non-zero-unused-bits", t));
        }
        // a key string longer than 32 bytes, every length consistent
        for extra in [1usize, 2, 8, 32] {
            let mut t = b.clone();
            t.extend(std::iter::repeat(0x41).take(extra));
            t[1] += extra as u8;
            if private {
                t[13] += extra as u8; // OCTET STRING
                t[15] += extra as u8; // inner OCTET STRING
            } else {
                t[10] += extra as u8; // BIT STRING
            }
            if t[1] < 0x80 {
                forms.push(("key-string-longer-than-32-bytes", t));
            }
        }
        // parameters after the OID inside the AlgorithmIdentifier (RFC 8410: absent)
        if let Some(pos) = b.windows(4).position(|w| w == [0x30, 0x05, 0x06, 0x03]) {
            for params in [&[0x05u8, 0x00][..], &[0x06, 0x03, 0x2b, 0x65, 0x70][..], &[0x04, 0x01, 0x00][..], &[0x00][..]] {
                let mut t = b.clone();
                t.splice(pos + 7..pos + 7, params.iter().copied());
                t[pos + 1] += params.len() as u8;
                t[1] += params.len() as u8;
                forms.push(("algorithm-identifier-with-parameters", t));
            }
        }
        for (what, t) in forms {
            v.push(Case::MustRefuse { data: t.clone(), what: format!("not-der:{what}"), parsers: mask & 0b0_1111 });
            let tag = if private { "PRIVATE KEY" } else { "PUBLIC KEY" };
            v.push(Case::MustRefuse { data: pem(tag, &t, 64, "\n", true).into_bytes(), what: format!("not-der-in-pem:{what}"), parsers: mask & 0b1_1100 });
        }
    }
    // structure-aware hostile DER: every length field is CONSISTENT, the contents are not what is expected
    for i in 0..(if ctx.quick() { 6000 } else { 800_000 }) {
        v.push(Case::Hostile(structured_der(&mut rng, i)));
    }
    // nested length overflows, indefinite lengths, huge lengths, random bytes
    let extra = if ctx.quick() { 120_000 } else { 6_000_000 };
    for i in 0..extra {
        let mut m = bases[i % 4].clone();
        for _ in 0..1 + rng.usize_below(4) {
            let at = rng.usize_below(m.len());
            match rng.below(6) {
                0 => m[at] = *rng.pick(&[0x80u8, 0x81, 0x82, 0x84, 0x88, 0xff, 0x7f, 0x00]),
                1 => {
                    m.insert(at, rng.below(256) as u8);
                }
                2 => {
                    m.remove(at);
                }
                3 => m.truncate(at),
                4 => {
                    let n = 1 + rng.usize_below(20);
                    m.extend(rng.bytes(n));
                }
                _ => m[at] ^= 1 << rng.below(8),
            }
            if m.is_empty() {
                break;
            }
        }
        v.push(Case::Hostile(m));
        if i % 5 == 0 {
            let n = rng.usize_below(200);
            v.push(Case::Hostile(rng.bytes(n)));
        }
    }
    v
}

fn tlv(tag: u8, content: &[u8], long_form: u8) -> Vec<u8> {
    let mut v = vec![tag];
    let n = content.len();
    match long_form {
        0 if n < 128 => v.push(n as u8),
        1 if n < 256 => v.extend([0x81, n as u8]),
        _ => v.extend([0x82, (n >> 8) as u8, n as u8]),
    }
    v.extend_from_slice(content);
    v
}

/// PKCS#8 private / SubjectPublicKeyInfo public structures with correct lengths and odd contents
fn structured_der(rng: &mut Rng, i: usize) -> Vec<u8> {
    let lf = |rng: &mut Rng| if rng.chance(1, 6) { 1 + rng.below(2) as u8 } else { 0 };
    let oid: Vec<u8> = match rng.below(7) {
        0 => vec![0x2b, 0x65, 0x70],
        1 => vec![0x2b, 0x65, 0x6e],
        2 => vec![0x2b, 0x65, 0x71],
        3 => vec![],
        4 => vec![0x2a, 0x86, 0x48, 0x86, 0xf7, 0x0d, 0x01, 0x01, 0x01],
        5 => {
            // OID grammar corners: arcs wider than 64 bits, padded arcs, an unterminated arc, a long OID
            match rng.below(5) {
                0 => {
                    let mut o = vec![0x2b];
                    o.extend(std::iter::repeat(0xff).take(1 + rng.usize_below(20)));
                    o.push(0x7f);
                    if rng.chance(1, 2) {
                        o.push(0x70);
                    }
                    o
                }
                1 => {
                    let mut o = vec![0x2b, 0x65];
                    o.extend(std::iter::repeat(0x80).take(1 + rng.usize_below(12)));
                    o.push(0x70);
                    o
                }
                2 => vec![0x2b, 0x65, 0xf0],
                3 => vec![0x01; 130],
                _ => vec![0xff, 0xff, 0xff, 0xff, 0xff, 0xff, 0xff, 0xff, 0xff, 0xff, 0x7f],
            }
        }
        _ => {
            let n = 1 + rng.usize_below(6);
            rng.bytes(n)
        }
    };
    let klen = *rng.pick(&[0usize, 1, 15, 16, 30, 31, 32, 32, 32, 33, 34, 64, 200]);
    let key = rng.bytes(klen);
    let alg = {
        let mut c = tlv(0x06, &oid, lf(rng));
        if rng.chance(1, 8) {
            c.extend(tlv(0x05, &[], 0)); // NULL parameters
        }
        tlv(0x30, &c, lf(rng))
    };
    if i % 2 == 0 {
        // private: SEQ { INT, SEQ { OID }, OCTET STRING { [04 L] key } }
        let declared = *rng.pick(&[klen as u8, 32, 32, 0, 31, 33, 0x80, 0xff]);
        let inner_tag = *rng.pick(&[0x04u8, 0x04, 0x04, 0x03, 0x30, 0x00]);
        let mut inner = Vec::new();
        match rng.below(8) {
            0 => {} // empty octet string
            1 => inner.push(inner_tag),
            _ => {
                inner.push(inner_tag);
                inner.push(declared);
                inner.extend_from_slice(&key);
            }
        }
        let int = match rng.below(5) {
            0 => vec![],
            1 => vec![1],
            2 => vec![0, 0],
            _ => vec![0],
        };
        let mut c = tlv(0x02, &int, 0);
        c.extend(alg);
        c.extend(tlv(*rng.pick(&[0x04u8, 0x04, 0x04, 0x03, 0x24]), &inner, lf(rng)));
        if rng.chance(1, 10) {
            c.extend(tlv(0xa1, &rng.bytes(3), 0)); // optional attributes / public key
        }
        tlv(0x30, &c, lf(rng))
    } else {
        // public: SEQ { SEQ { OID }, BIT STRING { unused, key } }
        let mut bits = Vec::new();
        if !rng.chance(1, 10) {
            bits.push(*rng.pick(&[0u8, 0, 0, 1, 7, 8, 0xff]));
        }
        bits.extend_from_slice(&key);
        let mut c = alg;
        c.extend(tlv(*rng.pick(&[0x03u8, 0x03, 0x03, 0x04, 0x23]), &bits, lf(rng)));
        tlv(0x30, &c, lf(rng))
    }
}

fn all_parsers(data: &[u8]) -> [bool; 5] {
    [
        cp::parse_openssl_25519_privkey_der(data).is_ok(),
        cp::parse_openssl_25519_pubkey_der(data).is_ok(),
        cp::parse_openssl_25519_privkey(data).is_ok(),
        cp::parse_openssl_25519_pubkey(data).is_ok(),
        cp::parse_openssl_25519_pubkeys_pem_many(data).is_ok(),
    ]
}

pub fn run_case(ctx: &mut Ctx, c: &Case) {
    let scen = || json!({"case": c, "k": "prod"});
    match c {
        Case::Pair(_) | Case::PairPattern(..) => {
            let (pat, seed) = match c {
                Case::Pair(s) => (0u8, s),
                Case::PairPattern(p, s) => (*p, s),
                _ => unreachable!(),
            };
            ctx.eval(*seed ^ u64::from(pat) << 48, true);
            ctx.count(if pat == 0 { "pair" } else { "pair_patterned_key_bytes" });
            let r = guarded(|| -> Result<(), String> {
                let mut rng = SeedRng(Rng::new(*seed), pat);
                let kp = cp::generate_keypair(&mut rng).ok_or("generate_keypair returned None")?;
                let s_der = cp::parse_openssl_25519_privkey(&kp.private_der).map_err(|e| format!("private DER does not parse: {e:?}"))?;
                let p_der = cp::parse_openssl_25519_pubkey(&kp.public_der).map_err(|e| format!("public DER does not parse: {e:?}"))?;
                let s_pem = cp::parse_openssl_25519_privkey(kp.private_as_pem().as_bytes()).map_err(|e| format!("private PEM does not parse: {e:?}"))?;
                let p_pem = cp::parse_openssl_25519_pubkey(kp.public_as_pem().as_bytes()).map_err(|e| format!("public PEM does not parse: {e:?}"))?;
                if PublicKey::from(&s_der).as_bytes() != p_der.as_bytes() {
                    return Err("public key of the parsed private key differs from the generated public key (DER)".into());
                }
                if s_pem.to_bytes() != s_der.to_bytes() || p_pem.as_bytes() != p_der.as_bytes() {
                    return Err("PEM and DER forms of the generated pair parse differently".into());
                }
                // independent check of the public half
                if crate::c19::x25519_base(&s_der.to_bytes()) != *p_der.as_bytes() {
                    return Err("generated public key is not the X25519 base-point multiple of the private key".into());
                }
                Ok(())
            });
            report(ctx, "pair", r, scen());
        }
        Case::Ed(seed) => {
            ctx.eval(*seed ^ 0xED, true);
            ctx.count("ed25519_pair");
            let r = guarded(|| -> Result<(), String> {
                let sd = Rng::new(*seed).array32();
                let (priv_der, pub_der, clamped, mont) = ed_pair(&sd);
                let s = cp::parse_openssl_25519_privkey(&priv_der).map_err(|e| format!("Ed25519 private DER does not parse: {e:?}"))?;
                let p = cp::parse_openssl_25519_pubkey(&pub_der).map_err(|e| format!("Ed25519 public DER does not parse: {e:?}"))?;
                if *p.as_bytes() != mont {
                    return Err("Ed25519 public key does not convert to the Montgomery form of the same point".into());
                }
                if PublicKey::from(&s).as_bytes() != p.as_bytes() {
                    return Err("converted Ed25519 private and public keys do not match each other".into());
                }
                if clamp_integer(s.to_bytes()) != clamped {
                    return Err("converted Ed25519 private key is not clamp(SHA-512(seed)[..32])".into());
                }
                let sp = cp::parse_openssl_25519_privkey(pem("PRIVATE KEY", &priv_der, 64, "\n", true).as_bytes()).map_err(|e| format!("Ed25519 private PEM: {e:?}"))?;
                let pp = cp::parse_openssl_25519_pubkey(pem("PUBLIC KEY", &pub_der, 64, "\n", true).as_bytes()).map_err(|e| format!("Ed25519 public PEM: {e:?}"))?;
                if sp.to_bytes() != s.to_bytes() || pp.as_bytes() != p.as_bytes() {
                    return Err("PEM and DER forms of the Ed25519 pair parse differently".into());
                }
                Ok(())
            });
            report(ctx, "ed25519", r, scen());
        }
        Case::PemVariant(seed, var) => {
            ctx.eval(*seed ^ u64::from(*var) << 56, true);
            let r = guarded(|| -> Result<&'static str, String> {
                let mut rng = Rng::new(*seed);
                let sk = rng.array32();
                let mut der = PUB_X.to_vec();
                der.extend_from_slice(&crate::c19::x25519_base(&sk));
                let reference = cp::parse_openssl_25519_pubkey_der(&der).map_err(|e| format!("reference DER: {e:?}"))?;
                let text = match var {
                    0 => pem("PUBLIC KEY", &der, 64, "\n", true),
                    1 => pem("PUBLIC KEY", &der, 64, "\r\n", true),
                    2 => pem("PUBLIC KEY", &der, 64, "\n", false),
                    3 => pem("PUBLIC KEY", &der, 1, "\n", true),
                    4 => pem("PUBLIC KEY", &der, 76, "\n", true),
                    5 => format!("some leading text\n{}", pem("PUBLIC KEY", &der, 64, "\n", true)),
                    6 => format!("{}trailing text\n", pem("PUBLIC KEY", &der, 64, "\n", true)),
                    _ => pem("PUBLIC KEY", &der, 1000, "\n", true),
                };
                match cp::parse_openssl_25519_pubkey(text.as_bytes()) {
                    Ok(p) if p.as_bytes() == reference.as_bytes() => Ok("accepted"),
                    Ok(_) => Err(format!("PEM variant {var} parses to another key than its DER")),
                    Err(e) if *var == 0 => Err(format!("canonical 64-column PEM refused: {e:?}")),
                    Err(_) => Ok("refused"),
                }
            });
            match r {
                Ok(Ok(o)) => ctx.count(&format!("pem_variant{var}:{o}")),
                Ok(Err(e)) => ctx.violation("C18", &format!("pem-variant:{}", e.split(' ').take(3).collect::<Vec<_>>().join("-")), scen(), json!({"message": e})),
                Err((loc, msg)) => ctx.violation("C18", &format!("panic:{loc}:{}", msg_class(&msg)), scen(), json!({"panic": msg})),
            }
        }
        Case::Many(seed, n) => {
            ctx.eval(*seed ^ 0x3A17, true);
            ctx.count(if *n & 0x40 != 0 { "pem_many_with_repeated_keys" } else { "pem_many" });
            let r = guarded(|| -> Result<(), String> {
                let mut rng = Rng::new(*seed);
                let mut text = String::new();
                let mut want = Vec::new();
                // keys may repeat in a list (same block twice, or an Ed25519 key next to the X25519 key
                // it converts to): bit 6 of n asks for repeats, the list is then drawn from 2 secrets
                let repeats = *n & 0x40 != 0;
                let count = *n & 0x3f;
                let pool = [rng.array32(), rng.array32()];
                for i in 0..count {
                    let sk = if repeats { pool[usize::from(rng.chance(1, 4))] } else { rng.array32() };
                    let as_x = if repeats { rng.chance(1, 2) } else { i % 2 == 0 };
                    let (der, key) = if as_x {
                        let (_, _, _, mont) = ed_pair(&sk);
                        if repeats {
                            // the X25519 form of the same Ed25519 key
                            let mut d = PUB_X.to_vec();
                            d.extend_from_slice(&mont);
                            text.push_str(&pem("PUBLIC KEY", &d, 64, "\n", true));
                            want.push(mont);
                            continue;
                        }
                        let k = crate::c19::x25519_base(&sk);
                        let mut d = PUB_X.to_vec();
                        d.extend_from_slice(&k);
                        (d, k)
                    } else {
                        let (_, pd, _, mont) = ed_pair(&sk);
                        (pd, mont)
                    };
                    text.push_str(&pem("PUBLIC KEY", &der, 64, "\n", true));
                    want.push(key);
                }
                let got = cp::parse_openssl_25519_pubkeys_pem_many(text.as_bytes()).map_err(|e| format!("concatenated PEM public keys refused: {e:?}"))?;
                let got: Vec<[u8; 32]> = got.iter().map(|p| *p.as_bytes()).collect();
                if got != want {
                    return Err(format!("concatenated PEM public keys parse to other keys / another order ({} vs {})", got.len(), want.len()));
                }
                Ok(())
            });
            report(ctx, "pem-many", r, scen());
        }
        Case::MustRefuse { data, what, parsers } => {
            ctx.eval(model::prng::fnv(data) ^ 0x5EF, true);
            ctx.count("must_refuse_inputs");
            match guarded(|| all_parsers(data)) {
                Ok(res) => {
                    let accepted: Vec<usize> = (0..5).filter(|i| parsers & (1 << i) != 0 && res[*i]).collect();
                    if accepted.is_empty() {
                        ctx.count("held:must-refuse");
                    } else {
                        ctx.violation("C18", &format!("accepted:{what}"), scen(), json!({"accepted_by_parsers": accepted, "input_hex": hex::encode(&data[..data.len().min(160)])}));
                    }
                }
                Err((loc, msg)) => ctx.violation("C18", &format!("panic:{loc}:{}", msg_class(&msg)), scen(), json!({"panic": msg})),
            }
        }
        Case::Hostile(data) => {
            ctx.eval(model::prng::fnv(data), true);
            let m0 = alloc::mark();
            let r = guarded(|| {
                let a = all_parsers(data);
                // the same bytes wrapped as PEM reach the DER parsers through the PEM entry points
                let p1 = all_parsers(pem("PRIVATE KEY", data, 64, "\n", true).as_bytes());
                let p2 = all_parsers(pem("PUBLIC KEY", data, 64, "\n", true).as_bytes());
                [a[0] | p1[0] | p2[0], a[1] | p1[1] | p2[1], a[2] | p1[2] | p2[2], a[3] | p1[3] | p2[3], a[4] | p1[4] | p2[4]]
            });
            let m1 = alloc::stats();
            match r {
                Ok(res) => {
                    ctx.count(if res.iter().any(|x| *x) { "hostile:accepted_by_some_parser" } else { "hostile:refused" });
                }
                Err((loc, msg)) => ctx.violation("C18", &format!("panic:{loc}:{}", msg_class(&msg)), scen(), json!({"panic": msg, "input_hex": hex::encode(&data[..data.len().min(120)])})),
            }
            ctx.max("largest_allocation_while_parsing", m1.largest);
            if m1.largest > (64 << 20) || m1.peak.saturating_sub(m0.live) > (64 << 20) {
                ctx.violation("C18", "allocation-out-of-proportion", scen(), json!({"largest": m1.largest, "input_len": data.len()}));
            }
        }
    }
}

fn report(ctx: &mut Ctx, what: &str, r: Result<Result<(), String>, (String, String)>, scen: Value) {
    match r {
        Ok(Ok(())) => ctx.count(&format!("held:{what}")),
        Ok(Err(e)) => {
            let cls: String = e.split(' ').take(4).collect::<Vec<_>>().join("-");
            ctx.violation("C18", &format!("{what}:{cls}"), scen, json!({"message": e}));
        }
        Err((loc, msg)) => ctx.violation("C18", &format!("panic:{loc}:{}", msg_class(&msg)), scen, json!({"panic": msg})),
    }
}

pub fn run(ctx: &mut Ctx) {
    let cs = cases(ctx);
    for (i, c) in cs.iter().enumerate() {
        if !ctx.mine(i as u64) {
            continue;
        }
        if !ctx.time_left() {
            break;
        }
        if i % 64 == 0 {
            ctx.sample(|| json!({"case": match c { Case::Hostile(d) => json!({"Hostile_hex": hex::encode(&d[..d.len().min(64)])}), other => json!(other) }}));
        }
        if ctx.journal(&json!({"prop": "C18", "scenario": {"case": c, "k": "prod"}})) {
            run_case(ctx, c);
        }
    }
}

pub fn replay(ctx: &mut Ctx, scenario: &Value) -> Result<(), String> {
    let c: Case = serde_json::from_value(scenario["case"].clone()).map_err(|e| e.to_string())?;
    run_case(ctx, &c);
    Ok(())
}
