//! C18 — key files: generation and parsing round-trip, parsing is total.
use crate::alloc;
use crate::ctx::{guarded, msg_class, Ctx};
use curve25519_dalek::edwards::EdwardsPoint;
use curve25519_dalek::scalar::clamp_integer;
use curve25519_parser as cp;
use model::prng::Rng;
use serde::{Deserialize, Serialize};
use serde_json::{json, Value};
use sha2::{Digest, Sha512};
use x25519_dalek::{PublicKey, StaticSecret};

pub const PRIV_X: &[u8] = b"\x30\x2e\x02\x01\x00\x30\x05\x06\x03\x2b\x65\x6e\x04\x22\x04\x20";
pub const PUB_X: &[u8] = b"\x30\x2a\x30\x05\x06\x03\x2b\x65\x6e\x03\x21\x00";
pub const PRIV_ED: &[u8] = b"\x30\x2e\x02\x01\x00\x30\x05\x06\x03\x2b\x65\x70\x04\x22\x04\x20";
pub const PUB_ED: &[u8] = b"\x30\x2a\x30\x05\x06\x03\x2b\x65\x70\x03\x21\x00";

#[derive(Clone, Debug, Serialize, Deserialize)]
pub enum Case {
    /// generated pair: DER and PEM of both halves
    Pair(u64),
    /// Ed25519 private/public pair built by the harness from a 32-byte seed
    Ed(u64),
    /// PEM presentation variants of a valid key
    PemVariant(u64, u8),
    /// several PEM public keys in one buffer
    Many(u64, u8),
    /// totality: one mutated input through every parser
    Hostile(Vec<u8>),
}

struct SeedRng(Rng);
impl rand_core::RngCore for SeedRng {
    fn next_u32(&mut self) -> u32 {
        self.0.next() as u32
    }
    fn next_u64(&mut self) -> u64 {
        self.0.next()
    }
    fn fill_bytes(&mut self, dest: &mut [u8]) {
        self.0.fill(dest);
    }
}
impl rand_core::CryptoRng for SeedRng {}

pub fn b64(data: &[u8]) -> String {
    let t = b"ABCDEFGHIJKLMNOPQRSTUVWXYZabcdefghijklmnopqrstuvwxyz0123456789+/";
    let mut s = String::new();
    for c in data.chunks(3) {
        let b = [c[0], *c.get(1).unwrap_or(&0), *c.get(2).unwrap_or(&0)];
        s.push(t[(b[0] >> 2) as usize] as char);
        s.push(t[(((b[0] & 3) << 4) | (b[1] >> 4)) as usize] as char);
        s.push(if c.len() > 1 { t[(((b[1] & 15) << 2) | (b[2] >> 6)) as usize] as char } else { '=' });
        s.push(if c.len() > 2 { t[(b[2] & 63) as usize] as char } else { '=' });
    }
    s
}

pub fn pem(tag: &str, der: &[u8], width: usize, eol: &str, final_eol: bool) -> String {
    let b = b64(der);
    let mut s = format!("-----BEGIN {tag}-----{eol}");
    for line in b.as_bytes().chunks(width.max(1)) {
        s.push_str(std::str::from_utf8(line).unwrap());
        s.push_str(eol);
    }
    s.push_str(&format!("-----END {tag}-----"));
    if final_eol {
        s.push_str(eol);
    }
    s
}

fn ed_pair(seed: &[u8; 32]) -> (Vec<u8>, Vec<u8>, [u8; 32], [u8; 32]) {
    let h = Sha512::digest(seed);
    let mut sc = [0u8; 32];
    sc.copy_from_slice(&h[..32]);
    let clamped = clamp_integer(sc);
    let a = EdwardsPoint::mul_base_clamped(sc);
    let mut priv_der = PRIV_ED.to_vec();
    priv_der.extend_from_slice(seed);
    let mut pub_der = PUB_ED.to_vec();
    pub_der.extend_from_slice(a.compress().as_bytes());
    (priv_der, pub_der, clamped, a.to_montgomery().to_bytes())
}

pub fn cases(ctx: &Ctx) -> Vec<Case> {
    let mut v = Vec::new();
    if !ctx.k.is_prod() {
        return v;
    }
    let mut rng = Rng::derive(ctx.seed, &[0xC18]);
    let n = if ctx.quick() { 12000 } else { 400_000 };
    for _ in 0..n {
        v.push(Case::Pair(rng.next()));
        v.push(Case::Ed(rng.next()));
    }
    for _ in 0..n / 10 {
        for var in 0..8 {
            v.push(Case::PemVariant(rng.next(), var));
        }
        v.push(Case::Many(rng.next(), 1 + rng.below(6) as u8));
    }
    // totality: exhaustive single-byte substitutions of the four DER forms
    let seed = rng.array32();
    let (ed_priv, ed_pub, _, _) = ed_pair(&seed);
    let mut x_priv = PRIV_X.to_vec();
    x_priv.extend_from_slice(&seed);
    let mut x_pub = PUB_X.to_vec();
    x_pub.extend_from_slice(&crate::c19::x25519_base(&seed));
    let bases: Vec<Vec<u8>> = vec![x_priv.clone(), x_pub.clone(), ed_priv, ed_pub];
    for b in &bases {
        for i in 0..b.len() {
            for val in 0..=255u8 {
                if b[i] != val {
                    let mut m = b.clone();
                    m[i] = val;
                    v.push(Case::Hostile(m));
                }
            }
        }
        for cut in 0..=b.len() {
            v.push(Case::Hostile(b[..cut].to_vec()));
            let mut ext = b.clone();
            ext.extend(rng.bytes(cut % 7));
            v.push(Case::Hostile(ext));
        }
        // PEM forms, mutated
        for tag in ["PRIVATE KEY", "PUBLIC KEY", "CERTIFICATE", ""] {
            let p = pem(tag, b, 64, "\n", true).into_bytes();
            v.push(Case::Hostile(p.clone()));
            for i in 0..p.len() {
                for val in [0u8, b'-', b'=', b'\n', 0xff, b'A'] {
                    let mut m = p.clone();
                    m[i] = val;
                    v.push(Case::Hostile(m));
                }
            }
            for cut in 0..p.len() {
                v.push(Case::Hostile(p[..cut].to_vec()));
            }
        }
    }
    // nested length overflows, indefinite lengths, huge lengths, random bytes
    let extra = if ctx.quick() { 120_000 } else { 2_000_000 };
    for i in 0..extra {
        let mut m = bases[i % 4].clone();
        for _ in 0..1 + rng.usize_below(4) {
            let at = rng.usize_below(m.len());
            match rng.below(6) {
                0 => m[at] = *rng.pick(&[0x80u8, 0x81, 0x82, 0x84, 0x88, 0xff, 0x7f, 0x00]),
                1 => {
                    m.insert(at, rng.below(256) as u8);
                }
                2 => {
                    m.remove(at);
                }
                3 => m.truncate(at),
                4 => {
                    let n = 1 + rng.usize_below(20);
                    m.extend(rng.bytes(n));
                }
                _ => m[at] ^= 1 << rng.below(8),
            }
            if m.is_empty() {
                break;
            }
        }
        v.push(Case::Hostile(m));
        if i % 5 == 0 {
            let n = rng.usize_below(200);
            v.push(Case::Hostile(rng.bytes(n)));
        }
    }
    v
}

fn all_parsers(data: &[u8]) -> [bool; 5] {
    [
        cp::parse_openssl_25519_privkey_der(data).is_ok(),
        cp::parse_openssl_25519_pubkey_der(data).is_ok(),
        cp::parse_openssl_25519_privkey(data).is_ok(),
        cp::parse_openssl_25519_pubkey(data).is_ok(),
        cp::parse_openssl_25519_pubkeys_pem_many(data).is_ok(),
    ]
}

pub fn run_case(ctx: &mut Ctx, c: &Case) {
    let scen = || json!({"case": c, "k": "prod"});
    match c {
        Case::Pair(seed) => {
            ctx.eval(*seed, true);
            ctx.count("pair");
            let r = guarded(|| -> Result<(), String> {
                let mut rng = SeedRng(Rng::new(*seed));
                let kp = cp::generate_keypair(&mut rng).ok_or("generate_keypair returned None")?;
                let s_der = cp::parse_openssl_25519_privkey(&kp.private_der).map_err(|e| format!("private DER does not parse: {e:?}"))?;
                let p_der = cp::parse_openssl_25519_pubkey(&kp.public_der).map_err(|e| format!("public DER does not parse: {e:?}"))?;
                let s_pem = cp::parse_openssl_25519_privkey(kp.private_as_pem().as_bytes()).map_err(|e| format!("private PEM does not parse: {e:?}"))?;
                let p_pem = cp::parse_openssl_25519_pubkey(kp.public_as_pem().as_bytes()).map_err(|e| format!("public PEM does not parse: {e:?}"))?;
                if PublicKey::from(&s_der).as_bytes() != p_der.as_bytes() {
                    return Err("public key of the parsed private key differs from the generated public key (DER)".into());
                }
                if s_pem.to_bytes() != s_der.to_bytes() || p_pem.as_bytes() != p_der.as_bytes() {
                    return Err("PEM and DER forms of the generated pair parse differently".into());
                }
                // independent check of the public half
                if crate::c19::x25519_base(&s_der.to_bytes()) != *p_der.as_bytes() {
                    return Err("generated public key is not the X25519 base-point multiple of the private key".into());
                }
                Ok(())
            });
            report(ctx, "pair", r, scen());
        }
        Case::Ed(seed) => {
            ctx.eval(*seed ^ 0xED, true);
            ctx.count("ed25519_pair");
            let r = guarded(|| -> Result<(), String> {
                let sd = Rng::new(*seed).array32();
                let (priv_der, pub_der, clamped, mont) = ed_pair(&sd);
                let s = cp::parse_openssl_25519_privkey(&priv_der).map_err(|e| format!("Ed25519 private DER does not parse: {e:?}"))?;
                let p = cp::parse_openssl_25519_pubkey(&pub_der).map_err(|e| format!("Ed25519 public DER does not parse: {e:?}"))?;
                if *p.as_bytes() != mont {
                    return Err("Ed25519 public key does not convert to the Montgomery form of the same point".into());
                }
                if PublicKey::from(&s).as_bytes() != p.as_bytes() {
                    return Err("converted Ed25519 private and public keys do not match each other".into());
                }
                if clamp_integer(s.to_bytes()) != clamped {
                    return Err("converted Ed25519 private key is not clamp(SHA-512(seed)[..32])".into());
                }
                let sp = cp::parse_openssl_25519_privkey(pem("PRIVATE KEY", &priv_der, 64, "\n", true).as_bytes()).map_err(|e| format!("Ed25519 private PEM: {e:?}"))?;
                let pp = cp::parse_openssl_25519_pubkey(pem("PUBLIC KEY", &pub_der, 64, "\n", true).as_bytes()).map_err(|e| format!("Ed25519 public PEM: {e:?}"))?;
                if sp.to_bytes() != s.to_bytes() || pp.as_bytes() != p.as_bytes() {
                    return Err("PEM and DER forms of the Ed25519 pair parse differently".into());
                }
                Ok(())
            });
            report(ctx, "ed25519", r, scen());
        }
        Case::PemVariant(seed, var) => {
            ctx.eval(*seed ^ u64::from(*var) << 56, true);
            let r = guarded(|| -> Result<&'static str, String> {
                let mut rng = Rng::new(*seed);
                let sk = rng.array32();
                let mut der = PUB_X.to_vec();
                der.extend_from_slice(&crate::c19::x25519_base(&sk));
                let reference = cp::parse_openssl_25519_pubkey_der(&der).map_err(|e| format!("reference DER: {e:?}"))?;
                let text = match var {
                    0 => pem("PUBLIC KEY", &der, 64, "\n", true),
                    1 => pem("PUBLIC KEY", &der, 64, "\r\n", true),
                    2 => pem("PUBLIC KEY", &der, 64, "\n", false),
                    3 => pem("PUBLIC KEY", &der, 1, "\n", true),
                    4 => pem("PUBLIC KEY", &der, 76, "\n", true),
                    5 => format!("some leading text\n{}", pem("PUBLIC KEY", &der, 64, "\n", true)),
                    6 => format!("{}trailing text\n", pem("PUBLIC KEY", &der, 64, "\n", true)),
                    _ => pem("PUBLIC KEY", &der, 1000, "\n", true),
                };
                match cp::parse_openssl_25519_pubkey(text.as_bytes()) {
                    Ok(p) if p.as_bytes() == reference.as_bytes() => Ok("accepted"),
                    Ok(_) => Err(format!("PEM variant {var} parses to another key than its DER")),
                    Err(e) if *var == 0 => Err(format!("canonical 64-column PEM refused: {e:?}")),
                    Err(_) => Ok("refused"),
                }
            });
            match r {
                Ok(Ok(o)) => ctx.count(&format!("pem_variant{var}:{o}")),
                Ok(Err(e)) => ctx.violation("C18", &format!("pem-variant:{}", e.split(' ').take(3).collect::<Vec<_>>().join("-")), scen(), json!({"message": e})),
                Err((loc, msg)) => ctx.violation("C18", &format!("panic:{loc}:{}", msg_class(&msg)), scen(), json!({"panic": msg})),
            }
        }
        Case::Many(seed, n) => {
            ctx.eval(*seed ^ 0x3A17, true);
            ctx.count("pem_many");
            let r = guarded(|| -> Result<(), String> {
                let mut rng = Rng::new(*seed);
                let mut text = String::new();
                let mut want = Vec::new();
                for i in 0..*n {
                    let sk = rng.array32();
                    let (der, key) = if i % 2 == 0 {
                        let k = crate::c19::x25519_base(&sk);
                        let mut d = PUB_X.to_vec();
                        d.extend_from_slice(&k);
                        (d, k)
                    } else {
                        let (_, pd, _, mont) = ed_pair(&sk);
                        (pd, mont)
                    };
                    text.push_str(&pem("PUBLIC KEY", &der, 64, "\n", true));
                    want.push(key);
                }
                let got = cp::parse_openssl_25519_pubkeys_pem_many(text.as_bytes()).map_err(|e| format!("concatenated PEM public keys refused: {e:?}"))?;
                let got: Vec<[u8; 32]> = got.iter().map(|p| *p.as_bytes()).collect();
                if got != want {
                    return Err(format!("concatenated PEM public keys parse to other keys / another order ({} vs {})", got.len(), want.len()));
                }
                Ok(())
            });
            report(ctx, "pem-many", r, scen());
        }
        Case::Hostile(data) => {
            ctx.eval(model::prng::fnv(data), true);
            let m0 = alloc::mark();
            let r = guarded(|| all_parsers(data));
            let m1 = alloc::stats();
            match r {
                Ok(res) => {
                    ctx.count(if res.iter().any(|x| *x) { "hostile:accepted_by_some_parser" } else { "hostile:refused" });
                }
                Err((loc, msg)) => ctx.violation("C18", &format!("panic:{loc}:{}", msg_class(&msg)), scen(), json!({"panic": msg, "input_hex": hex::encode(&data[..data.len().min(120)])})),
            }
            ctx.max("largest_allocation_while_parsing", m1.largest);
            if m1.largest > (64 << 20) || m1.peak.saturating_sub(m0.live) > (64 << 20) {
                ctx.violation("C18", "allocation-out-of-proportion", scen(), json!({"largest": m1.largest, "input_len": data.len()}));
            }
        }
    }
}

fn report(ctx: &mut Ctx, what: &str, r: Result<Result<(), String>, (String, String)>, scen: Value) {
    match r {
        Ok(Ok(())) => ctx.count(&format!("held:{what}")),
        Ok(Err(e)) => {
            let cls: String = e.split(' ').take(4).collect::<Vec<_>>().join("-");
            ctx.violation("C18", &format!("{what}:{cls}"), scen, json!({"message": e}));
        }
        Err((loc, msg)) => ctx.violation("C18", &format!("panic:{loc}:{}", msg_class(&msg)), scen, json!({"panic": msg})),
    }
}

pub fn run(ctx: &mut Ctx) {
    let cs = cases(ctx);
    for (i, c) in cs.iter().enumerate() {
        if !ctx.mine(i as u64) {
            continue;
        }
        if !ctx.time_left() {
            break;
        }
        if i % 64 == 0 {
            ctx.sample(|| json!({"case": match c { Case::Hostile(d) => json!({"Hostile_hex": hex::encode(&d[..d.len().min(64)])}), other => json!(other) }}));
        }
        if ctx.journal(&json!({"prop": "C18", "scenario": {"case": c, "k": "prod"}})) {
            run_case(ctx, c);
        }
    }
}

pub fn replay(ctx: &mut Ctx, scenario: &Value) -> Result<(), String> {
    let c: Case = serde_json::from_value(scenario["case"].clone()).map_err(|e| e.to_string())?;
    run_case(ctx, &c);
    Ok(())
}
