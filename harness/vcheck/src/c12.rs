//! C12 — linear extraction equals per-file extraction and notices truncation.
use crate::c06::{self, IdStyle};
use crate::ctx::{guarded, Ctx};
use crate::drv::{self, Sched};
use crate::xlate;
use model::consts::{Sz, K};
use model::fmt::{self, Blk, EncodeOpts};
use model::prng::Rng;
use model::prog::*;
use serde::{Deserialize, Serialize};
use serde_json::{json, Value};
use std::collections::HashMap;
use std::io::{self, Cursor, Write};

#[derive(Clone, Debug, Serialize, Deserialize, PartialEq, Eq, Hash)]
pub enum Subset {
    Empty,
    One(usize),
    All,
    Random(u64),
}

#[derive(Clone, Debug, Serialize, Deserialize)]
pub enum Case {
    /// library-written archive, extraction of a subset into throttled sinks
    Extract { prog: Program, subset: Subset, sink: Sched },
    /// model-encoded archive whose block stream has no end-of-data marker before a valid footer
    NoMarker { prog: Program, enc_seed: u64, keep_blocks: Option<usize>, cut_inside_last: bool },
}

/// archive source whose visible length can be reduced after the archive was opened
struct ShrinkSrc<'a> {
    data: &'a [u8],
    pos: u64,
    limit: std::rc::Rc<std::cell::Cell<usize>>,
}

impl io::Read for ShrinkSrc<'_> {
    fn read(&mut self, b: &mut [u8]) -> io::Result<usize> {
        crate::alloc::EVENTS.fetch_add(1, std::sync::atomic::Ordering::Relaxed);
        let end = self.limit.get().min(self.data.len());
        let p = (self.pos as usize).min(end);
        let n = b.len().min(end - p);
        b[..n].copy_from_slice(&self.data[p..p + n]);
        self.pos += n as u64;
        Ok(n)
    }
}

impl io::Seek for ShrinkSrc<'_> {
    fn seek(&mut self, s: io::SeekFrom) -> io::Result<u64> {
        let end = self.limit.get().min(self.data.len()) as i128;
        let t = match s {
            io::SeekFrom::Start(x) => x as i128,
            io::SeekFrom::Current(x) => self.pos as i128 + x as i128,
            io::SeekFrom::End(x) => end + x as i128,
        };
        if t < 0 {
            return Err(io::Error::new(io::ErrorKind::InvalidInput, "seek before start"));
        }
        self.pos = t as u64;
        Ok(self.pos)
    }
}

/// sink accepting part of each write
struct PartSink {
    buf: Vec<u8>,
    sched: Sched,
    calls: u64,
}

impl Write for PartSink {
    fn write(&mut self, b: &[u8]) -> io::Result<usize> {
        self.calls += 1;
        let n = self.sched.take(self.calls, b.len())?;
        self.buf.extend_from_slice(&b[..n]);
        Ok(n)
    }
    fn flush(&mut self) -> io::Result<()> {
        Ok(())
    }
}

pub fn cases(ctx: &Ctx) -> Vec<Case> {
    let k = ctx.k;
    let mut rng = Rng::derive(ctx.seed, &[0xC12]);
    let mut v = Vec::new();
    let n = match (k.is_prod(), ctx.quick()) {
        (false, true) => 8000,
        (false, false) => 120000,
        (true, true) => 1200,
        (true, false) => 20000,
    };
    let mut sizes = crate::gen::small_sizes();
    sizes.extend([Sz::new(0, 1, -17), Sz::new(0, 1, 0), Sz::new(0, 2, 5)]);
    if !k.is_prod() {
        sizes.extend([Sz::new(1, 0, -3), Sz::new(1, 1, 0)]);
    }
    let scheds = [Sched::All, Sched::Max(1), Sched::Cycle(7), Sched::Rand(300, 9), Sched::Max(4096)];
    for i in 0..n {
        let layers = LAYER_COMBOS[i % 4];
        let nfiles = 1 + rng.usize_below(if i % 16 == 0 { 20 } else { 6 });
        let p = random_program(&mut rng, layers, 1, nfiles, 4, &sizes, false);
        let subset = match i % 5 {
            0 => Subset::Empty,
            1 => Subset::One(rng.usize_below(nfiles)),
            2 => Subset::All,
            _ => Subset::Random(rng.next()),
        };
        let mut sink = rng.pick(&scheds).clone();
        if k.is_prod() && matches!(sink, Sched::Max(1)) && p.total_bytes(&k) > 300_000 {
            sink = Sched::Cycle(7);
        }
        v.push(Case::Extract { prog: p, subset, sink });
    }
    // steered shapes: a compressed block ending one byte after an encryption chunk edge (that byte not
    // needed by the decoder), read sequentially by the extraction
    if k.is_prod() {
        for (layers, grid) in [(3u8, crate::shapes::Grid::Chunk), (2, crate::shapes::Grid::Window)] {
            if let Some(p) = crate::shapes::block_end(&k, ctx.seed, layers, 1, grid, 1, true, false) {
                v.push(Case::Extract { prog: p.clone(), subset: Subset::All, sink: Sched::All });
                v.push(Case::Extract { prog: p, subset: Subset::One(2), sink: Sched::Max(4096) });
            }
        }
    }
    // marker-less archives (at most 64 files: with 254 files the footer's first byte is 0xFE)
    let m = match (k.is_prod(), ctx.quick()) {
        (false, true) => 300,
        (false, false) => 5000,
        (true, true) => 480,
        (true, false) => 8000,
    };
    for i in 0..m {
        let layers = LAYER_COMBOS[i % 4];
        let nfiles = rng.usize_below(if i % 20 == 0 { 64 } else { 5 });
        let p = random_program(&mut rng, layers, 1, nfiles, 3, &crate::gen::small_sizes(), false);
        let (keep_blocks, cut_inside_last) = match i % 3 {
            0 => (None, false),
            1 => (Some(rng.usize_below(40)), false),
            _ => (Some(rng.usize_below(40)), true),
        };
        v.push(Case::NoMarker { prog: p, enc_seed: rng.next(), keep_blocks, cut_inside_last });
    }
    v
}

/// Grammar-only linear reader (no id bookkeeping): does it meet an end-of-data type byte?
fn permissive_reaches_marker(s: &[u8]) -> bool {
    let mut i = 0usize;
    let n = s.len();
    loop {
        if i >= n {
            return false;
        }
        match s[i] {
            fmt::T_START => {
                if i + 17 > n {
                    return false;
                }
                let l = u64::from_le_bytes(s[i + 9..i + 17].try_into().unwrap());
                if l > 65536 || i + 17 + l as usize > n || std::str::from_utf8(&s[i + 17..i + 17 + l as usize]).is_err() {
                    return false;
                }
                i += 17 + l as usize;
            }
            fmt::T_CONTENT => {
                if i + 17 > n {
                    return false;
                }
                let l = u64::from_le_bytes(s[i + 9..i + 17].try_into().unwrap());
                if l > (n - i - 17) as u64 {
                    return false;
                }
                i += 17 + l as usize;
            }
            fmt::T_END_OF_FILE => {
                if i + 41 > n {
                    return false;
                }
                i += 41;
            }
            fmt::T_END_OF_DATA => return true,
            _ => return false,
        }
    }
}

fn chosen(p: &Program, subset: &Subset) -> Vec<String> {
    let names: Vec<String> = p.files.iter().map(|f| f.name.render()).collect();
    match subset {
        Subset::Empty => vec![],
        Subset::One(i) => names.get(*i).cloned().into_iter().collect(),
        Subset::All => names,
        Subset::Random(s) => {
            let mut r = Rng::new(*s);
            names.into_iter().filter(|_| r.chance(1, 2)).collect()
        }
    }
}

pub fn run_case(ctx: &mut Ctx, c: &Case) {
    let k = ctx.k;
    match c {
        Case::Extract { prog: p, subset, sink } => {
            ctx.eval(p.fingerprint() ^ model::prng::fnv(format!("{subset:?}{sink:?}").as_bytes()), p.files.len() >= 2);
            ctx.count(&format!("subset:{}", match subset { Subset::Empty => "empty", Subset::One(_) => "one", Subset::All => "all", Subset::Random(_) => "random" }));
            ctx.count(&format!("sink:{}", format!("{sink:?}").split('(').next().unwrap_or("?")));
            ctx.count(["reader:fresh", "reader:after_get_hash", "reader:after_get_file", "reader:after_linear_extract"][((p.fingerprint() ^ model::prng::fnv(format!("{subset:?}").as_bytes())) % 4) as usize]);
            ctx.sample(|| json!({"extract": {"prog": p, "subset": subset, "sink": sink}}));
            let scen = || json!({"case": c, "k": k.name(), "facts": xlate::facts(p, &k)});
            let r = guarded(|| -> Result<(), (String, String)> {
                let b = drv::build(p, &k, Sched::All).map_err(|e| ("build".to_string(), e))?;
                let names = chosen(p, subset);
                let mut ar = drv::open(Cursor::new(&b.raw[..]), &b.sks).map_err(|e| ("open".to_string(), e))?;
                // the reader may have been used before (linear extraction starts over from the
                // beginning of the data whatever was read last)
                let all_names: Vec<String> = p.files.iter().map(|f| f.name.render()).collect();
                let prior = (p.fingerprint() ^ model::prng::fnv(format!("{subset:?}").as_bytes())) % 4;
                if let Some(first) = all_names.first() {
                    match prior {
                        1 => {
                            let _ = ar.get_hash(all_names.last().unwrap()).map_err(|e| ("get_file".to_string(), e.to_string()))?;
                        }
                        2 => {
                            if let Some(mut f) = ar.get_file(first.clone()).map_err(|e| ("get_file".to_string(), e.to_string()))? {
                                let mut sinkhole = Vec::new();
                                io::Read::read_to_end(&mut f.data, &mut sinkhole).map_err(|e| ("get_file-read".to_string(), e.to_string()))?;
                            }
                        }
                        3 => {
                            let mut ex0: HashMap<&String, Vec<u8>> = all_names.iter().map(|n| (n, Vec::new())).collect();
                            mla::helpers::linear_extract(&mut ar, &mut ex0).map_err(|e| ("linear-extract-failed".to_string(), format!("first of two extractions: {e}")))?;
                        }
                        _ => {}
                    }
                }
                let mut export: HashMap<&String, PartSink> = names.iter().map(|n| (n, PartSink { buf: Vec::new(), sched: sink.clone(), calls: 0 })).collect();
                mla::helpers::linear_extract(&mut ar, &mut export).map_err(|e| ("linear-extract-failed".to_string(), e.to_string()))?;
                // reference: per-file reads on a second reader
                let mut ar2 = drv::open(Cursor::new(&b.raw[..]), &b.sks).map_err(|e| ("open".to_string(), e))?;
                for (n, s) in &export {
                    let mut f = ar2.get_file((*n).clone()).map_err(|e| ("get_file".to_string(), e.to_string()))?.ok_or(("get_file".to_string(), "none".to_string()))?;
                    let mut want = Vec::new();
                    io::Read::read_to_end(&mut f.data, &mut want).map_err(|e| ("get_file-read".to_string(), e.to_string()))?;
                    if want != s.buf {
                        return Err(("sink-differs-from-get_file".into(), format!("file {:?}: {}", drv::short(n), drv::diff_desc(&want, &s.buf))));
                    }
                    if b.expected.get(*n) != Some(&want) {
                        return Err(("get_file-differs-from-written".into(), format!("file {:?}", drv::short(n))));
                    }
                }
                Ok(())
            });
            match r {
                Ok(Ok(())) => ctx.count("held:extract"),
                Ok(Err((cls, msg))) if cls == "build" || cls == "open" || cls.starts_with("get_file") => {
                    // not linear extraction's fault: other properties' territory
                    ctx.violation("C01", &format!("c12-pre:{cls}"), scen(), json!({"message": msg}));
                }
                Ok(Err((cls, msg))) => ctx.violation("C12", &format!("{cls}:layers{}", p.layers), scen(), json!({"message": msg})),
                Err((loc, msg)) => ctx.violation("C12", &format!("panic:{loc}"), scen(), json!({"panic": msg})),
            }
        }
        Case::NoMarker { prog: p, enc_seed, keep_blocks, cut_inside_last } => {
            ctx.eval(p.fingerprint() ^ enc_seed, true);
            ctx.sample(|| json!({"no_marker": {"prog": p, "keep_blocks": keep_blocks, "cut_inside_last": cut_inside_last}}));
            let scen = || json!({"case": c, "k": k.name()});
            let mut rng = Rng::derive(*enc_seed, &[0xE4C]);
            let blks_all = c06::model_blocks(p, &k, *enc_seed, IdStyle::Sequential, false);
            let (stream_full, offs) = fmt::enc_blocks(&blks_all);
            let footer = fmt::make_footer(&blks_all, &offs);
            // block stream: all blocks, or only the first j, optionally cut inside the last kept one; never a marker
            let mut stream = match keep_blocks {
                None => stream_full.clone(),
                Some(j) => {
                    let j = (*j).min(blks_all.len());
                    let end = if j < offs.len() { offs[j] as usize } else { stream_full.len() };
                    let mut s = stream_full[..end].to_vec();
                    if *cut_inside_last && j > 0 {
                        let start = offs[j - 1] as usize;
                        if end - start > 1 {
                            s.truncate(start + 1 + rng.usize_below(end - start - 1));
                        }
                    }
                    s
                }
            };
            if stream.last() == Some(&fmt::T_END_OF_DATA) && !matches!(blks_all.last(), Some(Blk::End { .. })) {
                // a data byte equal to the marker value at the very end would be a marker by coincidence
                stream.push(0);
            }
            ctx.count(&format!("no_marker:{}", match (keep_blocks, cut_inside_last) { (None, _) => "all_blocks", (Some(_), false) => "cut_at_block_edge", _ => "cut_inside_block" }));
            let blocks_len = stream.len();
            stream.extend(fmt::enc_footer(&footer));
            // A linear reader only sees typed blocks: if the bytes of the footer, read as
            // blocks, happen to lead to a 0xFE type byte, no reader can tell (format coincidence)
            if permissive_reaches_marker(&stream) {
                ctx.count("no_marker:format_coincidence_skipped");
                return;
            }
            let sks: Vec<[u8; 32]> = (0..p.nrecip.max(1)).map(|i| secret_key(p.seed, i)).collect();
            let o = EncodeOpts {
                layers: p.layers,
                eph_sk: rng.array32(),
                recipients: sks.iter().map(fmt::public_of).collect(),
                key: rng.array32(),
                nonce: rng.bytes(8).try_into().unwrap(),
                qualities: vec![1],
                end_marker: false,
            };
            let raw = fmt::encode_layers(&k, &stream, &o);
            let names: Vec<String> = p.files.iter().map(|f| f.name.render()).collect();
            let r = guarded(|| -> Result<bool, String> {
                let mut ar = match drv::open(Cursor::new(&raw[..]), &sks) {
                    Ok(a) => a,
                    Err(_) => return Ok(false), // refusing the archive altogether is fine
                };
                let mut export: HashMap<&String, Vec<u8>> = names.iter().map(|n| (n, Vec::new())).collect();
                Ok(mla::helpers::linear_extract(&mut ar, &mut export).is_ok())
            });
            match r {
                Ok(Ok(false)) => ctx.count("held:no_marker_refused"),
                Ok(Ok(true)) => ctx.violation("C12", &format!("success-without-end-marker:layers{}", p.layers), scen(), json!({"files": names.len(), "keep_blocks": keep_blocks})),
                Ok(Err(e)) => ctx.violation("C12", "no-marker-harness", scen(), json!({"message": e})),
                Err((loc, msg)) => ctx.violation("C08", &format!("panic:{loc}:{}", crate::ctx::msg_class(&msg)), scen(), json!({"panic": msg, "during": "linear_extract on a marker-less archive"})),
            }
            // the same block stream with NOTHING after the last kept block: the archive is opened in full, then the
            // source ends exactly between two blocks (a file that is still being copied, a short pipe):
            // the end-of-data marker is never met, so the extraction has to fail
            if p.layers == 0 && !*cut_inside_last {
                let limit = std::rc::Rc::new(std::cell::Cell::new(raw.len()));
                let cut_at = raw.len() - (stream.len() - blocks_len);
                let r = guarded(|| -> Result<bool, String> {
                    let src = ShrinkSrc { data: &raw, pos: 0, limit: limit.clone() };
                    let mut ar = match drv::open(src, &sks) {
                        Ok(a) => a,
                        Err(_) => return Ok(false),
                    };
                    limit.set(cut_at);
                    let mut export: HashMap<&String, Vec<u8>> = names.iter().map(|n| (n, Vec::new())).collect();
                    Ok(mla::helpers::linear_extract(&mut ar, &mut export).is_ok())
                });
                match r {
                    Ok(Ok(false)) => ctx.count("held:source_ending_between_two_blocks_refused"),
                    Ok(Ok(true)) => ctx.violation("C12", "success-without-end-marker:source-ends-between-blocks:layers0", scen(), json!({"files": names.len(), "keep_blocks": keep_blocks, "source_ends_at": cut_at})),
                    Ok(Err(e)) => ctx.violation("C12", "no-marker-harness", scen(), json!({"message": e})),
                    Err((loc, msg)) => ctx.violation("C08", &format!("panic:{loc}:{}", crate::ctx::msg_class(&msg)), scen(), json!({"panic": msg, "during": "linear_extract on a source ending between two blocks"})),
                }
            }
        }
    }
}

pub fn run(ctx: &mut Ctx) {
    let cs = cases(ctx);
    for (i, c) in cs.iter().enumerate() {
        if !ctx.mine(i as u64) {
            continue;
        }
        if !ctx.time_left() {
            break;
        }
        if ctx.journal(&json!({"prop": "C12", "scenario": {"case": c, "k": ctx.k.name()}})) {
            run_case(ctx, c);
        }
    }
}

pub fn replay(ctx: &mut Ctx, scenario: &Value) -> Result<(), String> {
    let c: Case = serde_json::from_value(scenario["case"].clone()).map_err(|e| e.to_string())?;
    let from = scenario["k"].as_str().and_then(K::by_name).unwrap_or(ctx.k);
    if from == ctx.k {
        run_case(ctx, &c);
        return Ok(());
    }
    if let Case::Extract { prog, subset, sink } = &c {
        let facts: Vec<xlate::Fact> = serde_json::from_value(scenario["facts"].clone()).unwrap_or_default();
        for v in xlate::variants(prog, &facts, &from, &ctx.k).into_iter().take(4) {
            if v.total_bytes(&ctx.k) > 48 << 20 {
                continue;
            }
            run_case(ctx, &Case::Extract { prog: v, subset: subset.clone(), sink: sink.clone() });
        }
    } else {
        run_case(ctx, &c);
    }
    Ok(())
}
