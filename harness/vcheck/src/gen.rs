//! Program sets shared by several properties.
use model::consts::{Sz, K};
use model::prng::Rng;
use model::prog::*;

/// Solve for the size of piece `which_piece` so that the first point of `kind`
/// after that piece lies at `target` in the block stream. The size is stored
/// relative to the target, so the same program lands on the same edge under
/// any constant set.
pub fn with_size_at(mut p: Program, k: &K, which_piece: usize, kind: &str, target: Sz) -> Option<Program> {
    p.set_piece(which_piece, Sz::lit(1));
    let l1 = layout(&p, k);
    let pt = l1.points.iter().find(|pt| pt.kind == kind && pt.piece.is_some_and(|x| x >= which_piece))?.pos;
    let want = target.eval(k) as i64;
    let size = want - (pt as i64 - 1);
    if size < 1 {
        return None;
    }
    let s = Sz::new(target.b, target.c, target.d - (pt as i64 - 1));
    debug_assert_eq!(s.eval(k) as i64, size);
    p.set_piece(which_piece, s);
    Some(p)
}

/// Programs whose stream positions (piece end, end-of-file block, end marker,
/// footer start, stream end) land on / next to a chunk or block edge.
pub fn edge_programs(k: &K, layers: u8, level: u32, edges: &[Sz], seed: u64) -> Vec<Program> {
    let mut out = Vec::new();
    let kinds = ["piece_end", "eof_end", "footer_start", "stream_end", "content_hdr"];
    for (ei, e) in edges.iter().enumerate() {
        for (ki, kind) in kinds.iter().enumerate() {
            for d in [-1i64, 0, 1] {
                let target = Sz::new(e.b, e.c, e.d + d);
                // shape A: one file, one piece
                let base = single_file(layers, level, Sz::lit(1), DataKind::Random, seed ^ (ei * 31 + ki) as u64);
                if *kind != "content_hdr" {
                    if let Some(p) = with_size_at(base, k, 0, kind, target) {
                        out.push(p);
                    }
                } else {
                    // shape B: two files, second file's content header lands on the edge
                    let p = Program {
                        layers,
                        level,
                        nrecip: 1,
                        files: vec![
                            FileSpec { name: NameKind::Plain(0), data: DataKind::Random },
                            FileSpec { name: NameKind::Plain(1), data: DataKind::Text },
                        ],
                        ops: vec![
                            Op::Start(0),
                            Op::Start(1),
                            Op::Append(0, Sz::lit(1)),
                            Op::Append(1, Sz::lit(40)),
                            Op::Append(0, Sz::lit(33)),
                            Op::End(1),
                            Op::End(0),
                            Op::Finalize,
                        ],
                        seed: seed ^ (ei * 131 + 7) as u64,
                    };
                    if let Some(p) = with_size_at(p, k, 0, "content_hdr", target) {
                        out.push(p);
                    }
                }
            }
        }
    }
    out
}

/// every single-file size lo..=hi (concrete for `k`, stored symbolically)
pub fn all_sizes(k: &K, layers: u8, level: u32, lo: u64, hi: u64, data: DataKind, seed: u64) -> Vec<Program> {
    (lo..=hi).map(|n| single_file(layers, level, Sz::from_concrete(n, k), data, seed.wrapping_add(n))).collect()
}

/// A heavily interleaved program with `nfiles` files
pub fn interleaved(rng: &mut Rng, layers: u8, level: u32, nfiles: usize, pieces: usize, sizes: &[Sz]) -> Program {
    random_program(rng, layers, level, nfiles, pieces, sizes, false)
}

/// Small-piece sizes usable at every scale without large totals
pub fn small_sizes() -> Vec<Sz> {
    vec![Sz::lit(0), Sz::lit(1), Sz::lit(2), Sz::lit(7), Sz::lit(16), Sz::lit(17), Sz::lit(31), Sz::lit(100), Sz::lit(300)]
}

/// Sizes around chunk edges only (cheap at production scale)
pub fn chunk_sizes() -> Vec<Sz> {
    let mut v = small_sizes();
    for d in [-41, -18, -17, -16, -1, 0, 1, 17] {
        v.push(Sz::new(0, 1, d));
    }
    v.push(Sz::new(0, 2, 0));
    v
}

pub fn data_kinds() -> [DataKind; 4] {
    [DataKind::Random, DataKind::Constant(0x41), DataKind::Text, DataKind::Period(7)]
}
