//! Re-instantiation of a scenario found with scaled constants at the
//! production constants. A discrepancy seen at small scale is tied to some
//! alignment (a structural point on or near a chunk/block edge); each such
//! alignment "fact" gives one production variant in which the same point lies
//! at the same distance from the same kind of edge. Any violating execution
//! of a variant is a genuine production execution, so the translation can be
//! heuristic without risking a false alarm.
use crate::drv::{self, Sched};
use model::consts::{Sz, K};
use model::prog::*;
use serde::{Deserialize, Serialize};

#[derive(Clone, Debug, Serialize, Deserialize)]
pub struct Fact {
    pub kind: String,
    /// ordinal among the points of that kind
    pub ord: usize,
    pub pos: Sz,
}

const NEAR: i64 = 48;

/// Alignment facts of a program under `k` (block-stream points near an edge)
thread_local! {
    static FACTS_CACHE: std::cell::RefCell<std::collections::HashMap<u64, Vec<Fact>>> = std::cell::RefCell::new(std::collections::HashMap::new());
}

/// cached per program: a violating sweep asks thousands of times for the same program
pub fn facts(p: &Program, k: &K) -> Vec<Fact> {
    let key = p.fingerprint() ^ k.chunk;
    if let Some(v) = FACTS_CACHE.with(|c| c.borrow().get(&key).cloned()) {
        return v;
    }
    let v = facts_uncached(p, k);
    FACTS_CACHE.with(|c| {
        let mut c = c.borrow_mut();
        if c.len() > 4096 {
            c.clear();
        }
        c.insert(key, v.clone());
    });
    v
}

fn facts_uncached(p: &Program, k: &K) -> Vec<Fact> {
    let mut v = Vec::new();
    if p.layers == 0 {
        return v;
    }
    let l = layout(p, k);
    let mut ord: std::collections::BTreeMap<&str, usize> = Default::default();
    for pt in &l.points {
        let o = ord.entry(pt.kind).or_insert(0);
        let my = *o;
        *o += 1;
        if pt.pos == 0 {
            continue;
        }
        let s = Sz::from_concrete(pt.pos, k);
        let near = if p.layers & 2 != 0 { s.c == 0 && s.d.abs() <= NEAR && s.b > 0 } else { s.d.abs() <= NEAR && (s.b > 0 || s.c > 0) };
        if near {
            v.push(Fact { kind: pt.kind.to_string(), ord: my, pos: s });
        }
    }
    // with both layers the encryption chunks cut the compressed stream: measured, not computed
    if p.layers == 3 {
        if let Ok(b) = drv::build(p, k, Sched::All) {
            if let Some(pl) = enc_plain_len(&b.raw, k) {
                let s = Sz::from_concrete(pl, k);
                if s.d.abs() <= NEAR && (s.b > 0 || s.c > 0) {
                    v.push(Fact { kind: "enc_plain_end".into(), ord: 0, pos: s });
                }
            }
        }
    }
    v.sort_by_key(|f| (f.pos.d.abs(), if f.kind == "stream_end" || f.kind == "enc_plain_end" { 0 } else { 1 }));
    v
}

pub fn enc_plain_len(raw: &[u8], k: &K) -> Option<u64> {
    let h = model::fmt::dec_header(raw).ok()?;
    h.enc.as_ref()?;
    let body = (raw.len() - h.len) as u64;
    let nchunks = body.div_ceil(k.chunk_tag()).max(1);
    Some(body.saturating_sub(16 * nchunks))
}

/// every piece size rewritten relative to its nearest edges under `k`
pub fn normalized(p: &Program, k: &K) -> Program {
    let mut q = p.clone();
    for i in 0..p.npieces() {
        let s = p.piece(i).unwrap();
        q.set_piece(i, Sz::from_concrete(s.eval(k), k));
    }
    q
}

/// Production variants of a scenario found under `k_from`
pub fn variants(p: &Program, fs: &[Fact], k_from: &K, k_to: &K) -> Vec<Program> {
    let mut out = vec![p.clone()];
    let norm = normalized(p, k_from);
    if norm != *p {
        out.push(norm.clone());
    }
    for f in fs.iter().take(12) {
        if f.kind == "enc_plain_end" {
            if let Some(v) = converge_enc_plain(&norm, k_to, f.pos) {
                out.push(v);
            }
            continue;
        }
        // the non-empty piece preceding the point
        let l = layout(&norm, k_from);
        let Some(pt) = l.points.iter().filter(|pt| pt.kind == f.kind).nth(f.ord) else { continue };
        let Some(piece) = pt.piece else { continue };
        let mut q = norm.clone();
        q.set_piece(piece, Sz::lit(1));
        let l1 = layout(&q, k_to);
        let Some(pt1) = l1.points.iter().filter(|pt| pt.kind == f.kind).nth(f.ord) else { continue };
        let size = f.pos.eval(k_to) as i64 - (pt1.pos as i64 - 1);
        if size < 1 {
            continue;
        }
        q.set_piece(piece, Sz::lit(size));
        if !out.contains(&q) {
            out.push(q);
        }
    }
    out
}

/// With both layers: adjust the last non-empty piece until the compressed
/// stream ends at `target` (relative to a chunk edge) under `k`
fn converge_enc_plain(p: &Program, k: &K, target: Sz) -> Option<Program> {
    let n = p.npieces();
    let last = (0..n).rev().find(|i| p.piece(*i).is_some_and(|s| s.eval(k) > 0))?;
    let mut q = p.clone();
    let want_mod = target.eval(k) % k.chunk;
    for _ in 0..16 {
        let b = drv::build(&q, k, Sched::All).ok()?;
        let pl = enc_plain_len(&b.raw, k)?;
        let have = pl % k.chunk;
        if have == want_mod {
            return Some(q);
        }
        let delta = (want_mod + k.chunk - have) % k.chunk;
        let cur = q.piece(last)?.eval(k);
        q.set_piece(last, Sz::lit((cur + delta) as i64));
        if q.total_bytes(k) > 64 << 20 {
            return None;
        }
    }
    None
}
