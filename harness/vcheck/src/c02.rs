//! C02 — repair of any truncated archive is sound; C05 (b)(c) ride on the same sweeps.
use crate::ctx::Ctx;
use crate::gen;
use crate::sweep::{self, Case, CutSel};
use model::consts::Sz;
use model::prng::Rng;
use model::prog::*;
use serde_json::{json, Value};

pub fn programs(ctx: &Ctx, salt: u64) -> Vec<Program> {
    let k = ctx.k;
    let mut rng = Rng::derive(ctx.seed, &[0xC02, salt]);
    let mut v = Vec::new();
    if !k.is_prod() {
        let nrand = if ctx.quick() { 8 } else { 60 };
        for layers in LAYER_COMBOS {
            // no file at all, one empty file, one tiny file
            v.push(Program { layers, level: 5, nrecip: 1, files: vec![], ops: vec![Op::Finalize], seed: ctx.seed });
            v.push(single_file(layers, 5, Sz::lit(0), DataKind::Random, ctx.seed));
            v.push(single_file(layers, 5, Sz::lit(3), DataKind::Random, ctx.seed));
            // stream positions on chunk / block edges
            let edges = [Sz::new(0, 1, 0), Sz::new(0, 2, 0), Sz::new(1, 0, 0)];
            let ep = gen::edge_programs(&k, layers, 5, &edges, ctx.seed ^ salt);
            let take = if ctx.quick() { 6 } else { ep.len() };
            let mut ep = ep;
            rng.shuffle(&mut ep);
            v.extend(ep.into_iter().take(take));
            // a file spanning 2+ blocks, both entropies
            v.push(single_file(layers, 5, Sz::new(2, 1, 9), DataKind::Random, ctx.seed ^ 1));
            v.push(single_file(layers, 1, Sz::new(2, 0, -30), DataKind::Text, ctx.seed ^ 2));
            // content blocks that each fill exactly one chunk / whose data starts on a chunk edge and parses as blocks
            if let Some(p) = crate::c04::aligned_program(&k, layers, 4, Sz::new(0, 1, -17), ctx.seed ^ 0xA1) {
                v.push(p);
            }
            if let Some(p) = crate::c04::adversarial_program(&k, layers, 3, ctx.seed ^ 0xA2) {
                v.push(p);
            }
            // interleaved programs
            let mut sizes = gen::small_sizes();
            sizes.extend([Sz::new(0, 1, -17), Sz::new(0, 1, 0), Sz::new(0, 1, 1), Sz::new(0, 2, -18), Sz::new(0, 3, 5), Sz::new(1, 0, -20)]);
            for i in 0..nrand {
                let nfiles = 1 + rng.usize_below(4);
                let level = *rng.pick(&[0u32, 1, 5, 11]);
                v.push(random_program(&mut rng, layers, level, nfiles, 3, &sizes, i % 3 == 0));
            }
        }
    } else {
        let nrand = if ctx.quick() { 1 } else { 8 };
        for layers in LAYER_COMBOS {
            v.push(single_file(layers, 5, Sz::lit(3), DataKind::Random, ctx.seed));
            // 2+ chunks of incompressible data, stream end on a chunk edge for ENCRYPT
            let edges = [Sz::new(0, 2, 0)];
            let ep = gen::edge_programs(&k, layers, 1, &edges, ctx.seed ^ salt);
            let idx = [0usize, 4, 10, 13];
            for i in idx.iter().take(if ctx.quick() { 2 } else { 4 }) {
                if let Some(p) = ep.get(*i) {
                    v.push(p.clone());
                }
            }
            // compressible text over several chunks of output
            v.push(single_file(layers, 5, Sz::new(0, 5, 77), DataKind::Text, ctx.seed ^ 3));
            if let Some(p) = crate::c04::aligned_program(&k, layers, 3, Sz::new(0, 1, -17), ctx.seed ^ 0xA1) {
                v.push(p);
            }
            if let Some(p) = crate::c04::adversarial_program(&k, layers, 3, ctx.seed ^ 0xA2) {
                v.push(p);
            }
            let sizes = gen::chunk_sizes();
            for i in 0..nrand {
                let nfiles = 2 + rng.usize_below(3);
                let level = *rng.pick(&[1u32, 5]);
                v.push(random_program(&mut rng, layers, level, nfiles, 3, &sizes, i % 2 == 0));
            }
            if !ctx.quick() {
                // one archive crossing a compression block edge
                v.push(single_file(layers, 1, Sz::new(1, 1, 5), DataKind::Random, ctx.seed ^ 4));
            }
        }
        // a name of exactly the format limit (65536 bytes), one byte less, then an ordinary entry
        for (i, layers) in LAYER_COMBOS.into_iter().enumerate() {
            if ctx.quick() && i % 2 == 1 {
                continue;
            }
            v.push(Program {
                layers,
                level: 1,
                nrecip: 1,
                files: vec![
                    FileSpec { name: NameKind::Long(65536), data: DataKind::Text },
                    FileSpec { name: NameKind::Long(65535), data: DataKind::Random },
                    FileSpec { name: NameKind::Plain(7), data: DataKind::Text },
                ],
                ops: vec![Op::Add(0, Sz::lit(300)), Op::Add(1, Sz::lit(40)), Op::Add(2, Sz::lit(1000)), Op::Finalize],
                seed: ctx.seed ^ 0x10D6,
            });
        }
        // steered shapes: the first compressed block ends right after an encryption chunk edge /
        // an edge of the repair reader's input window, its last byte not needed by the decoder
        use crate::shapes::{block_end, Grid};
        let wanted: &[(u8, Grid, i64)] = if ctx.quick() { &[(3, Grid::Chunk, 1), (2, Grid::Window, 1)] } else { &[(3, Grid::Chunk, 1), (2, Grid::Window, 1), (3, Grid::Window, 1), (3, Grid::Chunk, 0), (2, Grid::Window, 0)] };
        for (layers, grid, r) in wanted {
            if let Some(p) = block_end(&k, ctx.seed ^ salt, *layers, 1, *grid, *r, true, false) {
                v.push(p);
            }
        }
    }
    v
}

pub fn cases(ctx: &Ctx, salt: u64) -> Vec<Case> {
    let k = ctx.k;
    let mut out = Vec::new();
    for (pi, p) in programs(ctx, salt).into_iter().enumerate() {
        let lay = layout(&p, &k);
        // archives of another writer of the format (file ids that are not 0, 1, 2 ...): a few
        // programs with several files are swept a second time in that form
        let foreign_twin = p.files.len() >= 2 && p.total_bytes(&k) as u64 <= 3 * k.block && pi % 3 == 0;
        if !k.is_prod() {
            let est = lay.stream_len as usize + 200 + (lay.stream_len / k.chunk) as usize * 16;
            if est > 5 * k.block as usize {
                continue;
            }
            let nseg = est.div_ceil(500).max(1);
            for s in 0..nseg {
                out.push(Case { prog: p.clone(), cuts: CutSel::All, seg: (s, nseg), foreign: None });
                if foreign_twin {
                    out.push(Case { prog: p.clone(), cuts: CutSel::All, seg: (s, nseg), foreign: Some((ctx.seed ^ pi as u64, 1 + (pi % 2) as u8)) });
                }
            }
        } else {
            let radius = 40u32;
            let samples = if ctx.quick() { 200 } else { 4000 };
            let nreg = lay.points.len() + 2 * (lay.stream_len / k.chunk) as usize + 4;
            let est_cuts = nreg * (2 * radius as usize + 1) + samples as usize;
            let nseg = est_cuts.div_ceil(300).max(1);
            for s in 0..nseg {
                out.push(Case { prog: p.clone(), cuts: CutSel::Windows { radius, samples, sseed: ctx.seed ^ p.fingerprint() }, seg: (s, nseg), foreign: None });
                if foreign_twin {
                    out.push(Case { prog: p.clone(), cuts: CutSel::Windows { radius, samples, sseed: ctx.seed ^ p.fingerprint() }, seg: (s, nseg), foreign: Some((ctx.seed ^ pi as u64, 1 + (pi % 2) as u8)) });
                }
            }
        }
    }
    out
}

pub fn run(ctx: &mut Ctx) {
    let cs = cases(ctx, 0);
    run_cases(ctx, &cs, "C02");
}

pub fn run_cases(ctx: &mut Ctx, cs: &[Case], me: &str) {
    // spread segments of the same archive over the shards
    for (i, c) in cs.iter().enumerate() {
        if !ctx.mine(i as u64) {
            continue;
        }
        if !ctx.time_left() {
            break;
        }
        if ctx.journal(&json!({"prop": me, "scenario": {"case": c, "k": ctx.k.name()}})) {
            sweep::run_case(ctx, c, me);
        }
    }
}

pub fn replay(ctx: &mut Ctx, scenario: &Value) -> Result<(), String> {
    sweep::replay(ctx, scenario, "C02")
}
