//! C03 — encrypted archives: any alteration is detected on read (normal reader).
use crate::ctx::{guarded, Ctx};
use crate::drv;
use crate::sweep::{self, CutAt, Prepared};
use crate::xlate;
use model::consts::{Sz, K};
use model::fmt;
use model::prng::Rng;
use model::prog::*;
use serde::{Deserialize, Serialize};
use serde_json::{json, Value};
use std::io::{Cursor, Read};

#[derive(Clone, Debug, Serialize, Deserialize, PartialEq, Eq, Hash)]
pub enum Alt {
    None,
    Flip { at: CutAt, bit: u8 },
    /// replace one byte by a value
    Set { at: CutAt, val: u8 },
    ChunkSwap(i64, i64),
    ChunkDup(i64),
    ChunkDel(i64),
    /// overwrite chunk `to` with a copy of chunk `from`
    ChunkCopy { from: i64, to: i64 },
    /// overwrite chunk i with chunk j of a second archive written for the same recipients
    ChunkFromOther { i: i64, j: i64 },
    TagSwap(i64, i64),
    /// keep chunks 0..k, then the original last chunk (which carries the footers)
    DropMiddle { keep: i64 },
    Trunc(CutAt),
    /// header of another archive (same recipients) in front of this body
    ForeignHeader,
}

impl Alt {
    fn kind(&self) -> &'static str {
        match self {
            Alt::None => "none",
            Alt::Flip { .. } => "flip",
            Alt::Set { .. } => "set",
            Alt::ChunkSwap(..) => "chunk_swap",
            Alt::ChunkDup(_) => "chunk_dup",
            Alt::ChunkDel(_) => "chunk_del",
            Alt::ChunkCopy { .. } => "chunk_copy",
            Alt::ChunkFromOther { .. } => "chunk_from_other",
            Alt::TagSwap(..) => "tag_swap",
            Alt::DropMiddle { .. } => "drop_middle",
            Alt::Trunc(_) => "trunc",
            Alt::ForeignHeader => "foreign_header",
        }
    }
}

#[derive(Clone, Debug, Serialize, Deserialize)]
pub enum AltSel {
    /// every bit of every byte
    AllBits,
    /// flips in windows around structural boundaries, one per chunk payload / tag, every header byte, + samples
    Windows { radius: u32, samples: u32, sseed: u64 },
    /// all chunk-level edits
    ChunkEdits,
    List(Vec<Alt>),
}

#[derive(Clone, Debug, Serialize, Deserialize)]
pub struct Case {
    pub prog: Program,
    pub sel: AltSel,
    pub seg: (usize, usize),
}

fn chunk_index(n: usize, i: i64) -> Option<usize> {
    let x = if i < 0 { n as i64 + i } else { i };
    if x >= 0 && (x as usize) < n {
        Some(x as usize)
    } else {
        None
    }
}

struct Env {
    pr: Prepared,
    /// (raw offset, data len) per chunk
    chunks: Vec<(usize, usize)>,
    other: Option<(Vec<u8>, Vec<(usize, usize)>, usize)>,
}

fn chunk_table(k: &K, raw: &[u8], sks: &[[u8; 32]]) -> Option<(Vec<(usize, usize)>, usize)> {
    if let Ok(d) = fmt::decode_archive(k, raw, sks) {
        return Some((d.enc_chunks.iter().map(|c| (d.header.len + c.off, c.len)).collect(), d.header.len));
    }
    // the independent decoder refuses the archive (reported elsewhere): the chunk grid is still known
    // from the format alone (header, then chunks of CHUNK bytes each followed by a 16-byte tag)
    let hl = fmt::dec_header(raw).ok()?.len;
    let ct = k.chunk_tag() as usize;
    let body = raw.len().checked_sub(hl)?;
    let mut v = Vec::new();
    let mut off = hl;
    while off < raw.len() {
        let seg = ct.min(raw.len() - off);
        if seg < 16 {
            return None;
        }
        v.push((off, seg - 16));
        off += seg;
    }
    let _ = body;
    Some((v, hl))
}

fn apply(env: &Env, a: &Alt) -> Vec<Vec<u8>> {
    let raw = &env.pr.raw;
    let ch = &env.chunks;
    let n = ch.len();
    let piece = |i: usize| -> &[u8] { &raw[ch[i].0..ch[i].0 + ch[i].1 + 16] };
    let rebuild = |order: &[Vec<u8>]| -> Vec<u8> {
        let mut v = raw[..env.pr.header_len].to_vec();
        for p in order {
            v.extend_from_slice(p);
        }
        v
    };
    let all: Vec<Vec<u8>> = (0..n).map(|i| piece(i).to_vec()).collect();
    match a {
        Alt::None => vec![raw.clone()],
        Alt::Flip { at, bit } => sweep::resolve_cut(&env.pr, at)
            .into_iter()
            .filter(|o| *o < raw.len())
            .map(|o| {
                let mut v = raw.clone();
                v[o] ^= 1 << (bit % 8);
                v
            })
            .collect(),
        Alt::Set { at, val } => sweep::resolve_cut(&env.pr, at)
            .into_iter()
            .filter(|o| *o < raw.len() && raw[*o] != *val)
            .map(|o| {
                let mut v = raw.clone();
                v[o] = *val;
                v
            })
            .collect(),
        Alt::Trunc(at) => sweep::resolve_cut(&env.pr, at).into_iter().filter(|o| *o < raw.len()).map(|o| raw[..o].to_vec()).collect(),
        Alt::ChunkSwap(i, j) => match (chunk_index(n, *i), chunk_index(n, *j)) {
            (Some(i), Some(j)) if i != j => {
                let mut o = all.clone();
                o.swap(i, j);
                vec![rebuild(&o)]
            }
            _ => vec![],
        },
        Alt::ChunkDup(i) => match chunk_index(n, *i) {
            Some(i) => {
                let mut o = all.clone();
                o.insert(i, all[i].clone());
                vec![rebuild(&o)]
            }
            None => vec![],
        },
        Alt::ChunkDel(i) => match chunk_index(n, *i) {
            Some(i) if n > 1 => {
                let mut o = all.clone();
                o.remove(i);
                vec![rebuild(&o)]
            }
            _ => vec![],
        },
        Alt::ChunkCopy { from, to } => match (chunk_index(n, *from), chunk_index(n, *to)) {
            (Some(f), Some(t)) if f != t => {
                let mut o = all.clone();
                o[t] = all[f].clone();
                vec![rebuild(&o)]
            }
            _ => vec![],
        },
        Alt::TagSwap(i, j) => match (chunk_index(n, *i), chunk_index(n, *j)) {
            (Some(i), Some(j)) if i != j => {
                let mut o = all.clone();
                let li = o[i].len();
                let lj = o[j].len();
                let ti = o[i][li - 16..].to_vec();
                let tj = o[j][lj - 16..].to_vec();
                o[i][li - 16..].copy_from_slice(&tj);
                o[j][lj - 16..].copy_from_slice(&ti);
                vec![rebuild(&o)]
            }
            _ => vec![],
        },
        Alt::DropMiddle { keep } => match chunk_index(n, *keep) {
            Some(kp) if kp + 1 < n => {
                let mut o: Vec<Vec<u8>> = all[..kp].to_vec();
                o.push(all[n - 1].clone());
                vec![rebuild(&o)]
            }
            _ => vec![],
        },
        Alt::ChunkFromOther { i, j } => {
            let Some((oraw, och, _)) = &env.other else { return vec![] };
            match (chunk_index(n, *i), chunk_index(och.len(), *j)) {
                (Some(i), Some(j)) => {
                    let mut o = all.clone();
                    o[i] = oraw[och[j].0..och[j].0 + och[j].1 + 16].to_vec();
                    vec![rebuild(&o)]
                }
                _ => vec![],
            }
        }
        Alt::ForeignHeader => {
            let Some((oraw, _, ohl)) = &env.other else { return vec![] };
            let mut v = oraw[..*ohl].to_vec();
            v.extend_from_slice(&raw[env.pr.header_len..]);
            vec![v]
        }
    }
}

/// Drive the normal reader over an altered archive; every returned byte / name is checked.
/// Returns (outcome class, violated clauses)
fn observe(env: &Env, alt: &[u8], rng: &mut Rng) -> (String, Vec<(String, String)>) {
    let pr = &env.pr;
    let mut viol = Vec::new();
    // the fail-safe decryption mode of the configuration concerns repair only: the normal reader must
    // behave the same whatever its value
    let mut cfg = drv::reader_config(&pr.sks);
    match rng.below(3) {
        0 => {
            cfg.failsafe_return_data_even_unauthenticated();
        }
        1 => {
            cfg.failsafe_return_only_authenticated_data();
        }
        _ => {}
    }
    let mut r = match mla::ArchiveReader::from_config(Cursor::new(alt), cfg) {
        Ok(r) => r,
        Err(_) => return ("error_at_open".into(), viol),
    };
    let mut names: Vec<String> = match r.list_files() {
        Ok(it) => it.cloned().collect(),
        Err(_) => return ("error_at_list".into(), viol),
    };
    for n in &names {
        if !pr.expected.contains_key(n) {
            viol.push(("foreign-name".to_string(), format!("listed name {:?} is not in the original archive", drv::short(n))));
        }
    }
    match rng.below(3) {
        0 => names.sort(),
        1 => {
            names.sort();
            names.reverse();
        }
        _ => rng.shuffle(&mut names),
    }
    let mut any_err = false;
    let mut all_complete = names.len() == pr.expected.len();
    for n in &names {
        let Some(orig) = pr.expected.get(n) else { continue };
        match r.get_hash(n) {
            Ok(Some(h)) => {
                if h != fmt::sha256(orig) {
                    viol.push(("wrong-hash".into(), format!("get_hash({:?}) returned a hash that is not the original one", drv::short(n))));
                }
            }
            Ok(None) => {}
            Err(_) => any_err = true,
        }
        let mut f = match r.get_file(n.clone()) {
            Ok(Some(f)) => f,
            Ok(None) => {
                all_complete = false;
                continue;
            }
            Err(_) => {
                any_err = true;
                all_complete = false;
                continue;
            }
        };
        if f.size != orig.len() as u64 {
            viol.push(("wrong-size".into(), format!("size of {:?} reported as {}, original {}", drv::short(n), f.size, orig.len())));
        }
        let mut off = 0usize;
        let mut buf = vec![0u8; 70000];
        let sizes = [1usize, 3, 64, 4096, 70000];
        loop {
            let b = *rng.pick(&sizes);
            match f.data.read(&mut buf[..b]) {
                Ok(0) => {
                    if off < orig.len() {
                        viol.push(("short-eof".into(), format!("file {:?}: end of file after {} of {} bytes, no error", drv::short(n), off, orig.len())));
                        all_complete = false;
                    }
                    break;
                }
                Ok(k) => {
                    if off + k > orig.len() || buf[..k] != orig[off..off + k] {
                        let first = (0..k).find(|i| off + i >= orig.len() || buf[*i] != orig[off + i]).unwrap_or(0);
                        viol.push(("wrong-data".into(), format!("file {:?}: byte at offset {} differs from the original", drv::short(n), off + first)));
                        all_complete = false;
                        break;
                    }
                    off += k;
                }
                Err(_) => {
                    any_err = true;
                    all_complete = false;
                    break;
                }
            }
        }
    }
    let oc = if !viol.is_empty() {
        "violation"
    } else if any_err {
        "error_at_read"
    } else if all_complete {
        "original_data_returned"
    } else {
        "partial_listing"
    };
    (oc.to_string(), viol)
}

fn alt_list(env: &Env, sel: &AltSel) -> Vec<Alt> {
    let pr = &env.pr;
    let n = env.chunks.len() as i64;
    match sel {
        AltSel::List(l) => l.clone(),
        AltSel::AllBits => {
            let mut v = vec![Alt::None];
            for o in 0..pr.raw.len() {
                let at = sweep::describe_cut(pr, o);
                for bit in 0..8 {
                    v.push(Alt::Flip { at: at.clone(), bit });
                }
            }
            v
        }
        AltSel::Windows { radius, samples, sseed } => {
            let mut rng = Rng::new(*sseed);
            let mut offs: Vec<usize> = Vec::new();
            let r = *radius as i64;
            for reg in &pr.regions {
                for edge in [reg.start, reg.end] {
                    for d in -r..=r {
                        let o = edge as i64 + d;
                        if o >= 0 && (o as usize) < pr.raw.len() {
                            offs.push(o as usize);
                        }
                    }
                }
            }
            // every header byte, one flip in every chunk payload and tag
            offs.extend(0..pr.header_len);
            for (s, l) in &env.chunks {
                if *l > 0 {
                    offs.push(s + rng.usize_below(*l));
                }
                offs.push(s + l + rng.usize_below(16));
            }
            for _ in 0..*samples {
                offs.push(rng.usize_below(pr.raw.len()));
            }
            offs.sort_unstable();
            offs.dedup();
            let mut v = vec![Alt::None];
            for o in offs {
                let at = sweep::describe_cut(pr, o);
                v.push(Alt::Flip { at: at.clone(), bit: rng.below(8) as u8 });
                if o < pr.header_len {
                    for val in [0u8, 1, 0x7f, 0xff] {
                        v.push(Alt::Set { at: at.clone(), val });
                    }
                }
            }
            v
        }
        AltSel::ChunkEdits => {
            let mut v = vec![Alt::None, Alt::ForeignHeader];
            let lim = n.min(12);
            let idx: Vec<i64> = (0..lim).chain(if n > lim { vec![-1, -2] } else { vec![] }).collect();
            for &i in &idx {
                v.push(Alt::ChunkDup(i));
                v.push(Alt::ChunkDel(i));
                v.push(Alt::DropMiddle { keep: i });
                v.push(Alt::Trunc(CutAt { refs: vec![sweep::RegRef { kind: "chunk_data".into(), idx: chunk_index(n as usize, i).unwrap_or(0), from_end: false, delta: 0 }], from_eof: -1 }));
                for &j in &idx {
                    if i != j {
                        v.push(Alt::ChunkSwap(i, j));
                        v.push(Alt::ChunkCopy { from: i, to: j });
                        v.push(Alt::TagSwap(i, j));
                    }
                    v.push(Alt::ChunkFromOther { i, j });
                }
            }
            v.dedup();
            v
        }
    }
}

pub fn cases(ctx: &Ctx) -> Vec<Case> {
    let k = ctx.k;
    let mut rng = Rng::derive(ctx.seed, &[0xC03]);
    let mut v = Vec::new();
    // more than 256 (and, scaled, more than 65536 would be too long) chunks: whole chunks exchanged or
    // copied at distances 128, 255, 256, 257 - a chunk counter taken modulo a power of two shows there
    {
        let p = single_file(1, 1, Sz::new(0, 259, 100), DataKind::Random, ctx.seed ^ 0x256);
        let far = vec![
            Alt::None,
            Alt::ChunkSwap(1, 257),
            Alt::ChunkSwap(0, 256),
            Alt::ChunkSwap(2, 258),
            Alt::ChunkCopy { from: 257, to: 1 },
            Alt::ChunkCopy { from: 3, to: 259 },
            Alt::ChunkSwap(1, 129),
            Alt::ChunkSwap(1, 256),
            Alt::ChunkSwap(1, 258),
            Alt::TagSwap(1, 257),
        ];
        v.push(Case { prog: p, sel: AltSel::List(far), seg: (0, 1) });
    }
    // "unaltered archives always open": every position of the stream end, of the footer start, of the
    // end-of-file block and of a content header from 4 bytes before to 19 bytes after a chunk edge (the
    // reader finds the footer by seeking from the end: 4 and 8 bytes read there may straddle two chunks)
    {
        let mut edges = Vec::new();
        for dd in [-3i64, 0, 3, 6, 9, 12, 15, 18] {
            edges.push(Sz::new(0, 1, dd));
        }
        for dd in [-3i64, 0, 3] {
            edges.push(Sz::new(0, 2, dd));
        }
        for layers in [1u8, 3] {
            for p in crate::gen::edge_programs(&k, layers, 1, &edges, ctx.seed ^ 0x0E0E) {
                v.push(Case { prog: p, sel: AltSel::List(vec![Alt::None]), seg: (0, 1) });
            }
        }
    }
    let mut sizes = crate::gen::small_sizes();
    sizes.extend([Sz::new(0, 1, -17), Sz::new(0, 1, 0), Sz::new(0, 2, 3)]);
    if !k.is_prod() {
        let mut progs = Vec::new();
        for layers in [1u8, 3] {
            progs.push(single_file(layers, 5, Sz::lit(5), DataKind::Random, ctx.seed));
            progs.push(single_file(layers, 5, Sz::new(0, 2, 7), DataKind::Random, ctx.seed ^ 1));
            progs.push(single_file(layers, 1, Sz::new(0, 4, 0), DataKind::Text, ctx.seed ^ 2));
            let n = if ctx.quick() { 4 } else { 16 };
            for i in 0..n {
                let mut p = random_program(&mut rng, layers, 1, 1 + i % 3, 3, &sizes, false);
                p.nrecip = 1 + i % 4;
                progs.push(p);
            }
        }
        for p in progs {
            let est = layout(&p, &k).stream_len as usize + 150 + 48 * p.nrecip;
            if est > 12 * k.chunk as usize {
                continue;
            }
            let nseg = (est * 8).div_ceil(1500).max(1);
            for s in 0..nseg {
                v.push(Case { prog: p.clone(), sel: AltSel::AllBits, seg: (s, nseg) });
            }
            v.push(Case { prog: p.clone(), sel: AltSel::ChunkEdits, seg: (0, 1) });
        }
        // longer archives for chunk-level edits
        for layers in [1u8, 3] {
            v.push(Case { prog: single_file(layers, 1, Sz::new(1, 4, 9), DataKind::Random, ctx.seed ^ 3), sel: AltSel::ChunkEdits, seg: (0, 1) });
        }
    } else {
        let mut progs = Vec::new();
        for layers in [1u8, 3] {
            progs.push(single_file(layers, 5, Sz::lit(5), DataKind::Random, ctx.seed));
            progs.push(single_file(layers, 1, Sz::new(0, 3, 100), DataKind::Random, ctx.seed ^ 1));
            let mut p = random_program(&mut rng, layers, 1, 3, 3, &crate::gen::chunk_sizes(), false);
            p.nrecip = 3;
            progs.push(p);
        }
        // several small files packed in a middle chunk, between two big ones: the first access to the
        // altered chunk fails, later accesses (other files of the same chunk) must fail as well
        for layers in [1u8, 3] {
            let mut files = vec![FileSpec { name: NameKind::Plain(0), data: DataKind::Random }];
            let mut ops = vec![Op::Add(0, Sz::new(0, 1, 50))];
            for i in 1..=6 {
                files.push(FileSpec { name: NameKind::Plain(i), data: DataKind::Random });
                ops.push(Op::Add(i as usize, Sz::lit(30 + 7 * i as i64)));
            }
            files.push(FileSpec { name: NameKind::Plain(7), data: DataKind::Random });
            ops.push(Op::Add(7, Sz::new(0, 2, 9)));
            ops.push(Op::Finalize);
            progs.push(Program { layers, level: 0, nrecip: 1, files, ops, seed: ctx.seed ^ 0x9AC });
        }
        let samples = if ctx.quick() { 1500 } else { 30000 };
        for p in &progs {
            let nseg = if ctx.quick() { 8 } else { 48 };
            for s in 0..nseg {
                v.push(Case { prog: p.clone(), sel: AltSel::Windows { radius: 24, samples, sseed: ctx.seed ^ p.fingerprint() }, seg: (s, nseg) });
            }
            v.push(Case { prog: p.clone(), sel: AltSel::ChunkEdits, seg: (0, 1) });
        }
        // 40-chunk archive for chunk-level edits
        let big = if ctx.quick() { Sz::new(0, 13, 5) } else { Sz::new(1, 8, 5) };
        for layers in [1u8, 3] {
            v.push(Case { prog: single_file(layers, 1, big, DataKind::Random, ctx.seed ^ 3), sel: AltSel::ChunkEdits, seg: (0, 1) });
        }
    }
    v
}

pub fn run_case(ctx: &mut Ctx, c: &Case) {
    let k = ctx.k;
    let p = &c.prog;
    if p.layers & 1 == 0 {
        return;
    }
    let Ok(Ok(pr)) = guarded(|| sweep::prepare(p, &k)) else {
        ctx.count("prepare_failed");
        return;
    };
    let Some((chunks, _)) = chunk_table(&k, &pr.raw, &pr.sks) else {
        ctx.count("prepare_failed");
        return;
    };
    // a second archive for the same recipients (other symmetric key and nonce)
    // (same names, sizes and recipients, OTHER file contents: a chunk of it that is accepted in place
    // of a chunk of the first archive shows in the bytes returned)
    let other_prog = {
        let mut q = p.clone();
        q.seed = p.seed ^ 0x07E4;
        // the recipients' keys derive from the seed: keep them by keeping the originals below
        q
    };
    let other = drv::build_for_keys(&other_prog, &k, p).ok().and_then(|b| chunk_table(&k, &b.raw, &pr.sks).map(|(c, hl)| (b.raw, c, hl)));
    // "unaltered archives always open": also when the source hands the bytes over in short reads
    if c.seg.0 == 0 {
        let mut r0 = Rng::new(p.seed ^ 0x0A11);
        let sched = if pr.raw.len() > 400_000 { drv::Sched::Max(4096) } else { drv::Sched::Cycle(7) };
        match guarded(|| drv::read_all_from(drv::ThrottledSrc::new(&pr.raw, sched), &pr.sks, &mut r0)) {
            Ok(Ok(got)) if drv::compare_maps(&pr.expected, &got).is_ok() => ctx.count("unaltered_archive_read_through_short_read_source"),
            Ok(Ok(_)) => ctx.violation("C03", &format!("unaltered-archive-differs:short-read-source:layers{}", p.layers), json!({"case": {"prog": p, "sel": AltSel::List(vec![Alt::None]), "seg": (0, 1)}, "k": k.name()}), json!({})),
            Ok(Err(e)) => ctx.violation("C03", &format!("unaltered-archive-refused:short-read-source:layers{}", p.layers), json!({"case": {"prog": p, "sel": AltSel::List(vec![Alt::None]), "seg": (0, 1)}, "k": k.name()}), json!({"error": e})),
            Err((loc, msg)) => ctx.violation("C08", &format!("panic:{loc}"), json!({"case": {"prog": p, "sel": AltSel::List(vec![Alt::None]), "seg": (0, 1)}, "k": k.name()}), json!({"panic": msg})),
        }
    }
    let env = Env { pr, chunks, other };
    let all = alt_list(&env, &c.sel);
    let (si, sn) = c.seg;
    let per = all.len().div_ceil(sn.max(1));
    let lo = si * per;
    let hi = ((si + 1) * per).min(all.len());
    if lo >= hi {
        return;
    }
    let mut rng = Rng::derive(ctx.seed, &[0xC03A, p.fingerprint(), si as u64]);
    ctx.sample(|| json!({"prog": p, "archive_len": env.pr.raw.len(), "chunks": env.chunks.len(), "alterations_in_segment": hi - lo, "first": all[lo..hi].iter().take(3).collect::<Vec<_>>()}));
    for a in &all[lo..hi] {
        if !ctx.time_left() {
            return;
        }
        for alt in apply(&env, a) {
            let changed = alt != env.pr.raw;
            if let Alt::ChunkSwap(i, j) | Alt::ChunkCopy { from: i, to: j } = a {
                if (i - j).abs() == 256 {
                    ctx.count("musthit:whole_chunks_exchanged_at_distance_256");
                }
            }
            let loc = match a {
                Alt::Flip { at, .. } | Alt::Set { at, .. } | Alt::Trunc(at) => at.refs.first().map_or("eof".to_string(), |r| r.kind.clone()),
                _ => "chunks".to_string(),
            };
            ctx.eval(model::prng::fnv_mix(p.fingerprint(), model::prng::fnv(format!("{a:?}").as_bytes())), changed);
            let scen = || json!({"case": {"prog": p, "sel": AltSel::List(vec![a.clone()]), "seg": (0, 1)}, "k": k.name(), "facts": xlate::facts(p, &k)});
            match guarded(|| observe(&env, &alt, &mut rng)) {
                Err((ploc, msg)) => {
                    ctx.count(&format!("outcome:{}:{loc}:panic", a.kind()));
                    ctx.violation("C08", &format!("panic:{ploc}:{}", crate::ctx::msg_class(&msg)), scen(), json!({"panic": msg, "during": "normal reader on an altered encrypted archive"}));
                }
                Ok((oc, viols)) => {
                    ctx.count(&format!("outcome:{}:{loc}:{oc}", a.kind()));
                    if !changed && oc != "original_data_returned" {
                        ctx.violation("C03", &format!("unaltered-archive-not-read:{oc}:layers{}", p.layers), scen(), json!({"outcome": oc}));
                    }
                    for (clause, msg) in viols {
                        ctx.violation("C03", &format!("{clause}:{}:{loc}:layers{}", a.kind(), p.layers), scen(), json!({"message": msg, "alteration": a}));
                    }
                }
            }
        }
    }
}

pub fn run(ctx: &mut Ctx) {
    let cs = cases(ctx);
    for (i, c) in cs.iter().enumerate() {
        if !ctx.mine(i as u64) {
            continue;
        }
        if !ctx.time_left() {
            break;
        }
        if ctx.journal(&json!({"prop": "C03", "scenario": {"case": c, "k": ctx.k.name()}})) {
            run_case(ctx, c);
        }
    }
}

pub fn replay(ctx: &mut Ctx, scenario: &Value) -> Result<(), String> {
    let c: Case = serde_json::from_value(scenario["case"].clone()).map_err(|e| e.to_string())?;
    let from = scenario["k"].as_str().and_then(K::by_name).unwrap_or(ctx.k);
    if from == ctx.k {
        run_case(ctx, &c);
        return Ok(());
    }
    let facts: Vec<xlate::Fact> = serde_json::from_value(scenario["facts"].clone()).unwrap_or_default();
    for v in xlate::variants(&c.prog, &facts, &from, &ctx.k).into_iter().take(4) {
        if v.total_bytes(&ctx.k) > 32 << 20 {
            continue;
        }
        run_case(ctx, &Case { prog: v, ..c.clone() });
    }
    Ok(())
}
