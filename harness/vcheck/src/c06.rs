//! C06 — archives conform to format v1 as documented, in both directions; cipher core.
use crate::c01;
use crate::ctx::{guarded, Ctx};
use crate::drv::{self, Mode, Sched};
use aes_gcm::aead::{Aead, KeyInit, Payload};
use aes_gcm::{Aes256Gcm, Nonce};
use mla::crypto::aesgcm::AesGcm256;
use model::consts::K;
use model::fmt::{self, Blk, EncodeOpts};
use model::prng::Rng;
use model::prog::*;
use serde::{Deserialize, Serialize};
use serde_json::{json, Value};
use std::collections::{BTreeMap, HashMap};

#[derive(Clone, Debug, Serialize, Deserialize)]
pub enum Case {
    /// library writes, independent decoder reads
    LibToModel(c01::Case),
    /// independent encoder writes, library reads
    ModelToLib { prog: Program, enc_seed: u64, ids: IdStyle, empty_blocks: bool },
    Cipher { len: usize, aad_len: usize, split_seed: u64, shape: u8 },
}

#[derive(Clone, Copy, Debug, Serialize, Deserialize, PartialEq, Eq)]
pub enum IdStyle {
    Sequential,
    From(u64),
    Random,
}

/// Program -> blocks with the model encoder's own choices
pub fn model_blocks(p: &Program, k: &K, enc_seed: u64, ids: IdStyle, empty_blocks: bool) -> Vec<Blk> {
    let mut rng = Rng::new(enc_seed);
    let totals = p.totals(k);
    let data: Vec<Vec<u8>> = p.files.iter().enumerate().map(|(f, s)| file_bytes(p.seed, f, s.data, totals[f])).collect();
    let mut off = vec![0usize; p.files.len()];
    let mut used = std::collections::HashSet::new();
    let mut idmap: Vec<u64> = Vec::new();
    for f in 0..p.files.len() {
        let id = match ids {
            IdStyle::Sequential => f as u64,
            IdStyle::From(b) => b + 3 * f as u64,
            IdStyle::Random => loop {
                let x = rng.next();
                if used.insert(x) {
                    break x;
                }
            },
        };
        idmap.push(id);
    }
    let mut blks = Vec::new();
    let push_content = |f: usize, n: usize, blks: &mut Vec<Blk>, off: &mut Vec<usize>, rng: &mut Rng| {
        // split into 1..3 sub-blocks, possibly empty ones
        let mut cuts = vec![0usize, n];
        for _ in 0..rng.usize_below(3) {
            cuts.push(rng.usize_below(n + 1));
        }
        cuts.sort_unstable();
        let mut pieces: Vec<(usize, usize)> = cuts.windows(2).map(|w| (w[0], w[1])).collect();
        if !empty_blocks {
            pieces.retain(|(a, b)| b > a);
        }
        for (a, b) in pieces {
            blks.push(Blk::Content { id: idmap[f], data: data[f][off[f] + a..off[f] + b].to_vec() });
        }
        off[f] += n;
    };
    for op in &p.ops {
        match op {
            Op::Start(f) => blks.push(Blk::Start { id: idmap[*f], name: p.files[*f].name.render().into_bytes() }),
            Op::Append(f, s) => push_content(*f, s.eval(k) as usize, &mut blks, &mut off, &mut rng),
            Op::End(f) => blks.push(Blk::End { id: idmap[*f], hash: fmt::sha256(&data[*f][..off[*f]]) }),
            Op::Add(f, s) => {
                blks.push(Blk::Start { id: idmap[*f], name: p.files[*f].name.render().into_bytes() });
                push_content(*f, s.eval(k) as usize, &mut blks, &mut off, &mut rng);
                blks.push(Blk::End { id: idmap[*f], hash: fmt::sha256(&data[*f][..off[*f]]) });
            }
            Op::Flush | Op::Finalize => {}
        }
    }
    blks
}

pub fn model_encode(p: &Program, k: &K, enc_seed: u64, ids: IdStyle, empty_blocks: bool) -> (Vec<u8>, Vec<[u8; 32]>) {
    let mut rng = Rng::derive(enc_seed, &[0xE4C]);
    let blks = model_blocks(p, k, enc_seed, ids, empty_blocks);
    let sks: Vec<[u8; 32]> = (0..p.nrecip.max(1)).map(|i| secret_key(p.seed, i)).collect();
    let mut recipients: Vec<[u8; 32]> = sks.iter().map(fmt::public_of).collect();
    rng.shuffle(&mut recipients);
    let o = EncodeOpts {
        layers: p.layers,
        eph_sk: rng.array32(),
        recipients,
        key: rng.array32(),
        nonce: rng.bytes(8).try_into().unwrap(),
        qualities: (0..4).map(|_| rng.below(12) as u32).map(|q| if q > 9 { 5 } else { q }).collect(),
        end_marker: true,
    };
    (fmt::encode_archive(k, &blks, None, &o), sks)
}

pub fn cases(ctx: &Ctx) -> Vec<Case> {
    let mut rng = Rng::derive(ctx.seed, &[0xC06]);
    let mut v = Vec::new();
    // direction 1: the C01 programs
    for c in c01::cases(ctx) {
        v.push(Case::LibToModel(c));
    }
    // direction 2
    let n = if ctx.quick() { 2400 } else { 40000 };
    let sizes = crate::gen::chunk_sizes();
    for i in 0..n {
        let layers = LAYER_COMBOS[i % 4];
        let nfiles = 1 + rng.usize_below(if i % 10 == 0 { 12 } else { 4 });
        let mut p = random_program(&mut rng, layers, 5, nfiles, 3, &sizes, false);
        p.nrecip = 1 + rng.usize_below(4);
        let ids = match i % 3 {
            0 => IdStyle::Sequential,
            1 => IdStyle::From(1000),
            _ => IdStyle::Random,
        };
        v.push(Case::ModelToLib { prog: p, enc_seed: rng.next(), ids, empty_blocks: (i / 4) % 2 == 0 });
    }
    // a content block larger than a compression block, both ways
    for layers in LAYER_COMBOS {
        let big = if ctx.quick() { model::consts::Sz::new(1, 1, 3) } else { model::consts::Sz::new(2, 1, 3) };
        v.push(Case::ModelToLib { prog: single_file(layers, 1, big, DataKind::Text, ctx.seed), enc_seed: 7, ids: IdStyle::Sequential, empty_blocks: false });
        // a file with no content block at all
        v.push(Case::ModelToLib { prog: single_file(layers, 1, model::consts::Sz::lit(0), DataKind::Text, ctx.seed), enc_seed: 8, ids: IdStyle::From(5), empty_blocks: false });
    }
    // names at the limit of the format (65536 bytes), one byte below, and in 3-byte characters: encoder -> library
    for (i, layers) in LAYER_COMBOS.into_iter().enumerate() {
        for (j, name) in [NameKind::Long(65536), NameKind::Long(65535), NameKind::Lit("\u{65e5}".repeat(21845) + "x")].into_iter().enumerate() {
            let mut p = single_file(layers, 1, model::consts::Sz::lit(300 + j as i64), DataKind::Text, ctx.seed ^ 0x4A3E);
            p.files[0].name = name;
            v.push(Case::ModelToLib { prog: p, enc_seed: 40 + (i * 3 + j) as u64, ids: IdStyle::Sequential, empty_blocks: false });
        }
    }
    // cipher core
    let lens = [0usize, 1, 15, 16, 17, 31, 32, 33, 4095, 4096, 4097, 131071, 131072];
    let reps = if ctx.quick() { 6 } else { 60 };
    for &len in &lens {
        for shape in 0..4u8 {
            for r in 0..reps {
                v.push(Case::Cipher { len, aad_len: [0usize, 1, 16, 33][r % 4], split_seed: rng.next(), shape });
            }
        }
    }
    let nrand = if ctx.quick() { 3000 } else { 60000 };
    for _ in 0..nrand {
        v.push(Case::Cipher { len: rng.usize_below(70000), aad_len: rng.usize_below(40), split_seed: rng.next(), shape: rng.below(4) as u8 });
    }
    v
}

fn cipher_case(len: usize, aad_len: usize, split_seed: u64, shape: u8) -> Result<(), String> {
    let mut rng = Rng::new(split_seed);
    let key = rng.array32();
    let nonce: [u8; 12] = rng.bytes(12).try_into().unwrap();
    let aad = rng.bytes(aad_len);
    let msg = rng.bytes(len);
    let reference = Aes256Gcm::new_from_slice(&key)
        .unwrap()
        .encrypt(Nonce::from_slice(&nonce), Payload { msg: &msg, aad: &aad })
        .map_err(|_| "reference encryption failed".to_string())?;
    let (ref_ct, ref_tag) = reference.split_at(len);
    // incremental encryption with a split sequence
    let mut c = AesGcm256::new(&key, &nonce, &aad).map_err(|e| e.to_string())?;
    let mut buf = msg.clone();
    let mut pos = 0;
    let mut splits = Vec::new();
    while pos < len {
        let n = match shape {
            0 => len - pos,
            1 => 1,
            2 => rng.usize_below(40),
            _ => *rng.pick(&[0usize, 1, 15, 16, 17, 4096, 4095]),
        }
        .min(len - pos);
        splits.push(n);
        c.encrypt(&mut buf[pos..pos + n]);
        pos += n;
        if splits.len() > 200_000 {
            break;
        }
    }
    if shape != 0 && len == 0 {
        c.encrypt(&mut []);
    }
    let tag = c.into_tag();
    if buf != ref_ct {
        let at = buf.iter().zip(ref_ct).position(|(a, b)| a != b);
        return Err(format!("ciphertext differs from AES-256-GCM at byte {at:?} (len {len}, first splits {:?})", &splits[..splits.len().min(8)]));
    }
    if tag.as_slice() != ref_tag {
        return Err(format!("tag differs from AES-256-GCM (len {len}, aad {aad_len}, first splits {:?})", &splits[..splits.len().min(8)]));
    }
    // whole-buffer decryption
    let mut d = AesGcm256::new(&key, &nonce, &aad).map_err(|e| e.to_string())?;
    let mut ct = ref_ct.to_vec();
    let dtag = d.decrypt(&mut ct);
    if ct != msg {
        return Err(format!("decrypt() does not invert AES-256-GCM (len {len})"));
    }
    if dtag.as_slice() != ref_tag {
        return Err(format!("decrypt() computes another tag than AES-256-GCM (len {len}, aad {aad_len})"));
    }
    Ok(())
}

pub fn run_case(ctx: &mut Ctx, c: &Case) {
    let k = ctx.k;
    let scen = || json!({"case": c, "k": k.name()});
    match c {
        Case::LibToModel(cc) => {
            let p = &cc.prog;
            ctx.eval(p.fingerprint(), p.is_nontrivial(&k));
            ctx.count(&format!("lib_to_model:layers{}", p.layers));
            ctx.sample(|| json!({"direction": "library -> independent decoder", "prog": p}));
            let r = guarded(|| -> Result<(usize, usize), String> {
                // the data sources may hand over fewer bytes than asked (any `Read` may): the bytes
                // written, and so the format, must not depend on that
                let fp = p.fingerprint();
                let src_sched = match fp % 4 {
                    0 => Sched::All,
                    1 if p.total_bytes(&k) <= 2_000_000 => Sched::Cycle(7),
                    2 => Sched::Rand(5000, fp),
                    _ => Sched::Max(4095),
                };
                let b = drv::build_with_sources(p, &k, Sched::All, src_sched)?;
                let d = fmt::decode_archive(&k, &b.raw, &[b.sks[cc.reader.min(b.sks.len() - 1)]])?;
                let got = d.files();
                if got != b.expected {
                    return Err(format!("independent decoder finds other files/bytes than were written ({} vs {} files)", got.len(), b.expected.len()));
                }
                Ok((d.enc_chunks.len(), d.comp.as_ref().map_or(0, |c| c.sizes.len())))
            });
            match r {
                Ok(Ok((chunks, blocks))) => {
                    ctx.add("structural:chunks_verified_with_nonce_be32_index", chunks as u64);
                    ctx.add("structural:compressed_blocks_checked", blocks as u64);
                    ctx.count("held");
                }
                Ok(Err(e)) => {
                    // class of the message, without the file name it may quote
                    let what = if e.starts_with("file \"") { e.rsplit("\": ").next().unwrap_or("?") } else { e.split(':').next().unwrap_or("?") };
                    let cls: String = what.chars().take(48).collect();
                    ctx.violation("C06", &format!("lib-to-model:{cls}:layers{}", p.layers), scen(), json!({"message": e}));
                }
                Err((loc, msg)) => ctx.violation("C06", &format!("lib-to-model:panic:{loc}"), scen(), json!({"panic": msg})),
            }
        }
        Case::ModelToLib { prog: p, enc_seed, ids, empty_blocks } => {
            ctx.eval(p.fingerprint() ^ enc_seed, true);
            ctx.count(&format!("model_to_lib:layers{}", p.layers));
            if *empty_blocks {
                ctx.count("model_to_lib:with_empty_content_blocks");
            }
            ctx.sample(|| json!({"direction": "independent encoder -> library", "prog": p, "ids": ids, "empty_blocks": empty_blocks}));
            let (raw, sks) = model_encode(p, &k, *enc_seed, *ids, *empty_blocks);
            let expected = p.expected(&k);
            // sanity: the model must accept its own output, else this is a harness defect
            match fmt::decode_archive(&k, &raw, &sks) {
                Ok(d) if d.files() == expected => {}
                other => {
                    eprintln!("HARNESS-ERROR model cannot decode its own archive: {:?}", other.err());
                    std::process::exit(2);
                }
            }
            let tag = format!("ids{ids:?}:empty{empty_blocks}:layers{}", p.layers);
            let mut rng = Rng::new(*enc_seed);
            // (i) per-file reader, with any one recipient key
            // (one case in two: among candidate keys that are not recipients, before and after it - FORMAT.md lets a
            // reader try each of its keys against each recipient slot)
            let key_idx = rng.usize_below(sks.len());
            let mut cand = vec![sks[key_idx]];
            if p.layers & 1 != 0 && enc_seed % 2 == 1 {
                cand = vec![secret_key(p.seed ^ 0x57A4, 200), sks[key_idx], secret_key(p.seed ^ 0x57A4, 201)];
                ctx.count("recipient_key_among_stranger_candidates");
            }
            let r = guarded(|| drv::read_all(&raw, &cand, &mut rng).and_then(|got| drv::compare_maps(&expected, &got)));
            match r {
                Ok(Ok(())) => ctx.count("held:get_file"),
                Ok(Err(e)) => {
                    let cls = if e.contains("content of") { "content" } else { e.split([' ', ':']).next().unwrap_or("?") };
                    ctx.violation("C06", &format!("model-to-lib:get_file:{cls}:{tag}"), scen(), json!({"message": e}));
                }
                Err((loc, msg)) => ctx.violation("C06", &format!("model-to-lib:get_file:panic:{loc}"), scen(), json!({"panic": msg})),
            }
            // (ii) linear extraction
            let r = guarded(|| -> Result<(), String> {
                let mut ar = drv::open(std::io::Cursor::new(&raw[..]), &sks)?;
                let names: Vec<String> = expected.keys().cloned().collect();
                let mut export: HashMap<&String, Vec<u8>> = names.iter().map(|n| (n, Vec::new())).collect();
                mla::helpers::linear_extract(&mut ar, &mut export).map_err(|e| format!("linear_extract: {e}"))?;
                for (n, got) in &export {
                    if *got != expected[*n] {
                        return Err(format!("linear_extract content of {:?} differs: {}", drv::short(n), drv::diff_desc(&expected[*n], got)));
                    }
                }
                Ok(())
            });
            match r {
                Ok(Ok(())) => ctx.count("held:linear_extract"),
                Ok(Err(e)) => ctx.violation("C06", &format!("model-to-lib:linear_extract:{tag}"), scen(), json!({"message": e})),
                Err((loc, msg)) => ctx.violation("C06", &format!("model-to-lib:linear_extract:panic:{loc}"), scen(), json!({"panic": msg})),
            }
            // (iii) repair of the intact archive
            let r = guarded(|| -> Result<(), String> {
                let (st, files) = drv::repair_and_read(&raw[..], &sks, Mode::Auth, &mut rng)?;
                if st != drv::Status::EndOfData {
                    return Err(format!("repair status {}", st.class()));
                }
                let got: BTreeMap<String, Vec<u8>> = files.into_iter().map(|(n, f)| (n, f.data)).collect();
                if got != expected {
                    return Err("repair recovers other files/bytes".into());
                }
                Ok(())
            });
            match r {
                Ok(Ok(())) => ctx.count("held:repair"),
                Ok(Err(e)) => ctx.violation("C06", &format!("model-to-lib:repair:{tag}"), scen(), json!({"message": e})),
                Err((loc, msg)) => ctx.violation("C06", &format!("model-to-lib:repair:panic:{loc}"), scen(), json!({"panic": msg})),
            }
        }
        Case::Cipher { len, aad_len, split_seed, shape } => {
            ctx.eval(model::prng::fnv(format!("{len}/{aad_len}/{split_seed}/{shape}").as_bytes()), *len > 0);
            ctx.count(&format!("cipher:shape{shape}:{}", if *len % 16 == 0 { "len%16=0" } else { "len%16!=0" }));
            ctx.sample(|| json!({"cipher": {"len": len, "aad_len": aad_len, "shape": shape}}));
            match guarded(|| cipher_case(*len, *aad_len, *split_seed, *shape)) {
                Ok(Ok(())) => ctx.count("held:cipher"),
                Ok(Err(e)) => {
                    let cls = e.split(' ').next().unwrap_or("?").to_string();
                    ctx.violation("C06", &format!("cipher:{cls}:shape{shape}:aad{}", if *aad_len == 0 { "0" } else { "n" }), scen(), json!({"message": e}));
                }
                Err((loc, msg)) => ctx.violation("C06", &format!("cipher:panic:{loc}"), scen(), json!({"panic": msg})),
            }
        }
    }
}

pub fn run(ctx: &mut Ctx) {
    let cs = cases(ctx);
    for (i, c) in cs.iter().enumerate() {
        if !ctx.mine(i as u64) {
            continue;
        }
        if !ctx.time_left() {
            break;
        }
        if ctx.journal(&json!({"prop": "C06", "scenario": {"case": c, "k": ctx.k.name()}})) {
            run_case(ctx, c);
        }
    }
}

pub fn replay(ctx: &mut Ctx, scenario: &Value) -> Result<(), String> {
    let c: Case = serde_json::from_value(scenario["case"].clone()).map_err(|e| e.to_string())?;
    run_case(ctx, &c);
    Ok(())
}
