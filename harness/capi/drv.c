/* C driver for the MLA C bindings: interprets a program read from stdin and prints
 * one line per call with its status. Built with clang -fsanitize=address,undefined
 * (and without, for valgrind) against libmla.a built from the tree under test. */
#include <stdio.h>
#include <stdlib.h>
#include <string.h>
#include <stdint.h>
#include "mla.h"

#define MAXSLOT 64
static uint8_t *out = NULL; static size_t out_len = 0, out_cap = 0;
static uint32_t sched[64]; static int nsched = 0; static unsigned long wcalls = 0, fcalls = 0;
static long fail_write_at = -1, fail_flush_at = -1; static unsigned long interruptions = 0;

static uint64_t sm(uint64_t *x) { uint64_t z = (*x += 0x9E3779B97F4A7C15ULL); z = (z ^ (z >> 30)) * 0xBF58476D1CE4E5B9ULL; z = (z ^ (z >> 27)) * 0x94D049BB133111EBULL; return z ^ (z >> 31); }
static void gen(uint8_t *b, size_t n, uint64_t seed) { uint64_t s = seed; for (size_t i = 0; i < n; i++) { if ((i & 7) == 0) s = s; b[i] = (uint8_t)(sm(&seed) & 0xff); } (void)s; }

static int32_t wcb(const uint8_t *buf, uint32_t len, void *ctx, uint32_t *written) {
  (void)ctx; wcalls++;
  if (fail_write_at >= 0 && (long)wcalls == fail_write_at) { puts("injected_write_failure"); return 5; }
  uint32_t n = len;
  /* a schedule entry of 0xFFFFFFFF: this call is interrupted (EINTR), nothing is taken */
  if (nsched > 0) { uint32_t m = sched[(wcalls - 1) % nsched]; if (m == 0xFFFFFFFFu) { interruptions++; return 4; } if (m < n) n = m; if (n == 0 && len > 0) n = 1; }
  if (out_len + n > out_cap) { out_cap = (out_len + n) * 2 + 4096; out = realloc(out, out_cap); }
  memcpy(out + out_len, buf, n); out_len += n; *written = n; return 0;
}
static int32_t fcb(void *ctx) { (void)ctx; fcalls++; if (fail_flush_at >= 0 && (long)fcalls == fail_flush_at) { puts("injected_flush_failure"); return 7; } return 0; }

/* ---- extraction side */
typedef struct { uint8_t *data; size_t len, pos; } Src;
static int32_t rcb(uint8_t *buf, uint32_t len, void *ctx, uint32_t *nread) { Src *s = *(Src **)ctx; size_t n = s->len - s->pos; if (n > len) n = len; if (nsched > 0) { static unsigned long rc = 0; uint32_t m = sched[rc++ % nsched]; if (m < n && m > 0) n = m; } memcpy(buf, s->data + s->pos, n); s->pos += n; *nread = (uint32_t)n; return 0; }
static int32_t scb(int64_t off, int32_t whence, void *ctx, uint64_t *newpos) { Src *s = *(Src **)ctx; int64_t base = whence == 0 ? 0 : whence == 1 ? (int64_t)s->pos : (int64_t)s->len; int64_t p = base + off; if (p < 0) return 22; s->pos = (size_t)p; *newpos = (uint64_t)p; return 0; }
typedef struct { Src *src; const char *outdir; int nfiles; long fail_file_at; long fail_fw_at; unsigned long fwcalls; } XCtx;
typedef struct { FILE *f; XCtx *x; } FW;
static int32_t fw_write(const uint8_t *buf, uint32_t len, void *ctx, uint32_t *written) { FW *w = ctx; w->x->fwcalls++; if (w->x->fail_fw_at >= 0 && (long)w->x->fwcalls == w->x->fail_fw_at) { puts("injected_fw_failure"); return 9; } uint32_t n = len; if (nsched > 0) { uint32_t m = sched[(w->x->fwcalls - 1) % nsched]; if (m < n && m > 0) n = m; } fwrite(buf, 1, n, w->f); *written = n; return 0; }
static int32_t fw_flush(void *ctx) { FW *w = ctx; fflush(w->f); return 0; }
static FW *fws[4096]; static int nfws = 0;
static int32_t filecb(void *ctx, const uint8_t *name, uintptr_t name_len, struct FileWriter *fw) {
  XCtx *x = ctx; x->nfiles++;
  if (x->fail_file_at >= 0 && x->nfiles == x->fail_file_at) return 3;
  char path[4096]; snprintf(path, sizeof path, "%s/%d.bin", x->outdir, x->nfiles);
  FW *w = malloc(sizeof *w); w->f = fopen(path, "wb"); w->x = x; if (!w->f) return 4; if (nfws < 4096) fws[nfws++] = w;
  snprintf(path, sizeof path, "%s/%d.name", x->outdir, x->nfiles); FILE *nf = fopen(path, "wb"); fwrite(name, 1, name_len, nf); fclose(nf);
  fw->write_callback = fw_write; fw->flush_callback = fw_flush; fw->context = w; return 0;
}

static char *slurp(const char *path, size_t *len) { FILE *f = fopen(path, "rb"); if (!f) return NULL; fseek(f, 0, SEEK_END); long n = ftell(f); fseek(f, 0, SEEK_SET); char *b = malloc(n + 1); fread(b, 1, n, f); b[n] = 0; fclose(f); if (len) *len = n; return b; }
static size_t unhex(const char *h, uint8_t *o) { size_t n = strlen(h) / 2; for (size_t i = 0; i < n; i++) { unsigned v; sscanf(h + 2 * i, "%2x", &v); o[i] = (uint8_t)v; } return n; }

int main(void) {
  static char line[300000]; MLAConfigHandle cfg = NULL; MLAArchiveHandle arch = NULL; MLAArchiveFileHandle files[MAXSLOT] = {0};
  MLAArchiveHandle stale_arch = NULL;
  while (fgets(line, sizeof line, stdin)) {
    char cmd[64]; if (sscanf(line, "%63s", cmd) != 1) continue; char *arg = line + strlen(cmd); while (*arg == ' ') arg++; arg[strcspn(arg, "\n")] = 0;
    MLAStatus st = 0; int printed = 1;
    if (!strcmp(cmd, "cfg_new")) st = mla_config_default_new(&cfg);
    else if (!strcmp(cmd, "cfg_level")) st = mla_config_set_compression_level(cfg, (uint32_t)atoi(arg));
    else if (!strcmp(cmd, "cfg_pubkeys")) { char *k = slurp(arg, NULL); st = mla_config_add_public_keys(cfg, k); free(k); }
    else if (!strcmp(cmd, "cfg_null_calls")) { st = mla_config_set_compression_level(NULL, 1); printf("status cfg_level_null %llu\n", (unsigned long long)st); st = mla_config_add_public_keys(NULL, "x"); printf("status cfg_pubkeys_null %llu\n", (unsigned long long)st); st = mla_config_add_public_keys(cfg, NULL); printf("status cfg_pubkeys_nullstr %llu\n", (unsigned long long)st); st = mla_config_default_new(NULL); }
    else if (!strcmp(cmd, "arch_new")) {
      if (!strcmp(arg, "null_cfg")) st = mla_archive_new(NULL, wcb, fcb, NULL, &arch);
      else if (!strcmp(arg, "cleared_cfg")) { MLAConfigHandle c2 = NULL; MLAArchiveHandle a2 = NULL; st = mla_archive_new(&c2, wcb, fcb, NULL, &a2); }
      else if (!strcmp(arg, "null_write")) st = mla_archive_new(&cfg, NULL, fcb, NULL, &arch);
      else if (!strcmp(arg, "null_flush")) st = mla_archive_new(&cfg, wcb, NULL, NULL, &arch);
      else if (!strcmp(arg, "null_out")) st = mla_archive_new(&cfg, wcb, fcb, NULL, NULL);
      else st = mla_archive_new(&cfg, wcb, fcb, NULL, &arch);
    }
    else if (!strcmp(cmd, "file_new")) { int slot; char hexname[140000]; sscanf(arg, "%d %139999s", &slot, hexname); static uint8_t nm[70001]; size_t n = strcmp(hexname, "-") ? unhex(hexname, nm) : 0; nm[n] = 0; st = mla_archive_file_new(arch, (const char *)nm, &files[slot]); }
    else if (!strcmp(cmd, "append")) { int slot; unsigned long len; unsigned long long seed; sscanf(arg, "%d %lu %llu", &slot, &len, &seed); uint8_t *b = malloc(len + 1); gen(b, len, seed); st = mla_archive_file_append(arch, files[slot], b, len); free(b); }
    else if (!strcmp(cmd, "file_close")) { int slot = atoi(arg); st = mla_archive_file_close(arch, &files[slot]); }
    else if (!strcmp(cmd, "flush")) st = mla_archive_flush(arch);
    else if (!strcmp(cmd, "close")) { stale_arch = arch; st = mla_archive_close(&arch); }
    else if (!strcmp(cmd, "sched")) { nsched = 0; char *t = strtok(arg, ","); while (t && nsched < 64) { sched[nsched++] = (uint32_t)atol(t); t = strtok(NULL, ","); } printed = 0; }
    else if (!strcmp(cmd, "fail_write_at")) { fail_write_at = atol(arg) > 0 ? (long)wcalls + atol(arg) : -1; printed = 0; }
    else if (!strcmp(cmd, "fail_flush_at")) { fail_flush_at = atol(arg) > 0 ? (long)fcalls + atol(arg) : -1; printed = 0; }
    else if (!strcmp(cmd, "null_call")) {
      uint8_t b[4] = {1, 2, 3, 4}; MLAArchiveFileHandle fh = NULL, nullfh = NULL; MLAArchiveHandle nullarch = NULL;
      if (!strcmp(arg, "file_new_null_archive")) st = mla_archive_file_new(NULL, "x", &fh);
      else if (!strcmp(arg, "file_new_null_name")) st = mla_archive_file_new(arch, NULL, &fh);
      else if (!strcmp(arg, "file_new_null_out")) st = mla_archive_file_new(arch, "x", NULL);
      else if (!strcmp(arg, "append_null_archive")) st = mla_archive_file_append(NULL, files[0], b, 4);
      else if (!strcmp(arg, "append_null_file")) st = mla_archive_file_append(arch, NULL, b, 4);
      else if (!strcmp(arg, "append_null_buffer")) st = mla_archive_file_append(arch, files[0], NULL, 4);
      else if (!strcmp(arg, "flush_null")) st = mla_archive_flush(NULL);
      else if (!strcmp(arg, "file_close_null_archive")) st = mla_archive_file_close(NULL, &files[0]);
      else if (!strcmp(arg, "file_close_null_ptr")) st = mla_archive_file_close(arch, NULL);
      else if (!strcmp(arg, "file_close_cleared")) st = mla_archive_file_close(arch, &nullfh);
      else if (!strcmp(arg, "close_null_ptr")) st = mla_archive_close(NULL);
      else if (!strcmp(arg, "close_cleared")) st = mla_archive_close(&nullarch);
      else if (!strcmp(arg, "append_after_close")) st = mla_archive_file_append(arch, files[0], b, 4);   /* arch was cleared by close */
      else if (!strcmp(arg, "file_new_after_close")) st = mla_archive_file_new(arch, "y", &fh);
      else if (!strcmp(arg, "flush_after_close")) st = mla_archive_flush(arch);
      else if (!strcmp(arg, "close_twice")) st = mla_archive_close(&arch);
      else if (!strcmp(arg, "extract_null_cfg")) st = mla_roarchive_extract(NULL, rcb, scb, filecb, NULL);
      else if (!strcmp(arg, "extract_cleared_cfg")) { MLAConfigHandle c2 = NULL; Src s = {(uint8_t *)"MLA", 3, 0}; Src *sp = &s; st = mla_roarchive_extract(&c2, rcb, scb, filecb, &sp); }
      else if (!strcmp(arg, "extract_null_read")) { MLAConfigHandle c2 = NULL; mla_reader_config_new(&c2); st = mla_roarchive_extract(&c2, NULL, scb, filecb, NULL); }
      else if (!strcmp(arg, "info_null_out")) st = mla_roarchive_info(rcb, NULL, NULL);
      else if (!strcmp(arg, "info_null_read")) { struct ArchiveInfo inf; st = mla_roarchive_info(NULL, NULL, &inf); }
      else if (!strcmp(arg, "reader_cfg_null")) { st = mla_reader_config_new(NULL); printf("status reader_cfg_new_null %llu\n", (unsigned long long)st); st = mla_reader_config_add_private_key(NULL, "k"); }
      else { printf("unknown null_call %s\n", arg); continue; }
      (void)stale_arch;
    }
    else if (!strcmp(cmd, "dump")) { FILE *f = fopen(arg, "wb"); fwrite(out, 1, out_len, f); fclose(f); printf("dumped %zu wcalls %lu fcalls %lu\n", out_len, wcalls, fcalls); printed = 0; }
    else if (!strcmp(cmd, "extract")) {
      /* pre: 1 = mla_roarchive_info first, on the same source context (left where the call left it);
              2 = a first extraction without any key (fails after the header was read), then the real one on the same context */
      char apath[2048], kpath[2048], odir[2048]; long ffa = -1, fwa = -1, pre = 0; sscanf(arg, "%2047s %2047s %2047s %ld %ld %ld", apath, kpath, odir, &ffa, &fwa, &pre);
      MLAConfigHandle rc = NULL; st = mla_reader_config_new(&rc); if (strcmp(kpath, "-")) { char *k = slurp(kpath, NULL); st = mla_reader_config_add_private_key(rc, k); printf("status add_private_key %llu\n", (unsigned long long)st); free(k); }
      Src s; size_t n; s.data = (uint8_t *)slurp(apath, &n); s.len = n; s.pos = 0; XCtx x = {&s, odir, 0, ffa, fwa, 0};
      /* the same context pointer is given to the read/seek callbacks and to the file callback: its first field is the source */
      if (pre == 1) { Src *sp = &s; struct ArchiveInfo inf = {0, 0}; uint64_t st0 = mla_roarchive_info(rcb, &sp, &inf); printf("pre_info %llu version %u\n", (unsigned long long)st0, inf.version); }
      if (pre == 2 && strcmp(kpath, "-")) { MLAConfigHandle rc0 = NULL; mla_reader_config_new(&rc0); XCtx x0 = {&s, odir, 0, -1, -1, 0}; uint64_t st0 = mla_roarchive_extract(&rc0, rcb, scb, filecb, &x0); printf("pre_extract_without_key %llu files %d\n", (unsigned long long)st0, x0.nfiles); }
      st = mla_roarchive_extract(&rc, rcb, scb, filecb, &x);
      for (int i = 0; i < nfws; i++) { fclose(fws[i]->f); free(fws[i]); } nfws = 0; free(s.data);
      printf("extract_files %d cfg_cleared %d\n", x.nfiles, rc == NULL);
    }
    else if (!strcmp(cmd, "info")) { Src s; size_t n; s.data = (uint8_t *)slurp(arg, &n); s.len = n; s.pos = 0; Src *sp = &s; struct ArchiveInfo inf = {0, 0}; st = mla_roarchive_info(rcb, &sp, &inf); printf("info version %u layers %u\n", inf.version, inf.layers); free(s.data); }
    else { printf("unknown %s\n", cmd); continue; }
    if (printed) printf("status %s %llu\n", cmd, (unsigned long long)st);
    fflush(stdout);
  }
  free(out);
  printf("done\n");
  return 0;
}
