#!/bin/bash
# run every claimed check once (tier $1, default quick) and print one line per property
tier=${1:-quick}
cd "$(dirname "$0")/.." || exit 2
for p in C01 C02 C03 C04 C05 C06 C07 C08 C09 C10 C11 C12 C13 C14 C15 C16 C17 C18 C19 C20; do
  t0=$(date +%s)
  out=$(./check $p $tier 2>&1); rc=$?
  t1=$(date +%s)
  nv=$(echo "$out" | grep -c "^VIOLATION")
  nk=$(echo "$out" | grep -c "^KNOWN-FINDING")
  ni=$(echo "$out" | grep -c "^INCONCLUSIVE")
  ev=$(echo "$out" | grep "^\[evidence\]" | sed 's/\[evidence\] //')
  echo "$p exit=$rc wall=$((t1-t0))s viol=$nv known=$nk inconc=$ni | $ev"
  if [ $rc -ne 0 ]; then echo "$out" | grep -E "^VIOLATION|signature|HARNESS" | head -8; fi
done
