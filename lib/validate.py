#!/opt/veriftools/pyvenv/bin/python
"""Validate MANIFEST.json and every evidence file against the given schemas."""
import json, sys, glob, jsonschema
m = json.load(open('/verif/MANIFEST.json'))
jsonschema.validate(m, json.load(open('/root/.vp/MANIFEST.schema.json')))
es = json.load(open('/root/.vp/EVIDENCE.schema.json'))
for f in sorted(glob.glob('/verif/evidence/*.json')):
    jsonschema.validate(json.load(open(f)), es)
    print("ok", f)
ids = {json.loads(l)["id"] for l in open('/verif/properties.jsonl')}
claimed = {c["property_id"] for c in m["checks"]}
na = {c["property_id"] for c in m.get("not_applicable", [])}
assert claimed | na == ids and not (claimed & na), (claimed, na)
print("manifest ok; claimed", sorted(claimed))
