#!/bin/bash
# usage: lib/regress_seeded.sh [pattern]   (default: every directory of /verif/seeded)
# For each seeded change: apply its patch to /repo, run the quick check of the property it breaks,
# revert, and record exit status + signatures in seeded/<id>/detect.json. Never run concurrently
# with another check (it modifies /repo's working tree for the duration of each run).
cd "$(dirname "$0")/.." || exit 2
pat=${1:-}
for d in seeded/*${pat}*/; do
  id=$(basename "$d")
  prop=${id%%-*}
  # the check that is expected to catch it (another property's check for a few cross-property seeds)
  m=$(python3 -c "import json,sys;print(json.load(open(sys.argv[1]))['detected_by']['check'])" "$d/meta.json" 2>/dev/null); [ -n "$m" ] && prop=$m
  patch="$PWD/${d%/}/patch.diff"
  [ -f "$patch" ] || continue
  t0=$(date +%s)
  out=$(SEED_TIER=${SEED_TIER:-quick} lib/seedtest.sh "$patch" "$prop" 2>&1)
  t1=$(date +%s)
  rc=$(echo "$out" | grep -o "== $prop exit=[0-9]*" | tail -1 | sed 's/.*=//')
  sigs=$(echo "$out" | grep "^  signature:" | sed 's/^  signature: //' | sort -u | head -8 | python3 -c 'import sys,json; print(json.dumps([l.strip() for l in sys.stdin]))')
  python3 - "$d" "$prop" "${rc:-?}" "$sigs" "$((t1-t0))" <<'PY'
import json,sys
d,prop,rc,sigs,wall=sys.argv[1:6]
json.dump({"check":prop,"tier":"quick","exit_status":rc,"signatures":json.loads(sigs),"wall_s":int(wall)},open(d+"/detect.json","w"),indent=1)
PY
  echo "$id check=$prop exit=${rc:-?} wall=$((t1-t0))s sigs=$(echo "$sigs" | cut -c1-160)"
  git clean -fdXq replays/ 2>/dev/null
  if [ -n "$(git -C /repo status --short)" ]; then echo "REPO NOT CLEAN after $id"; git -C /repo checkout -- .; fi
done
