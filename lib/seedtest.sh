#!/bin/bash
# usage: lib/seedtest.sh <patch.diff> <Cxx> [<Cyy> ...]   - apply a seeded change to /repo, run the quick checks, undo it
set -u
patch="$1"; shift
cd /repo || exit 2
if [ -n "$(git status --porcelain --untracked-files=no)" ]; then echo "/repo not clean"; exit 2; fi
git apply "$patch" || { echo "patch does not apply"; exit 2; }
trap 'git -C /repo checkout -- . ' EXIT
cd /verif
for p in "$@"; do
  out=$(./check "$p" "${SEED_TIER:-quick}" 2>&1); rc=$?
  echo "== $p exit=$rc"
  echo "$out" | grep -E "^VIOLATION|signature:|INCONCLUSIVE|HARNESS|^\[stage\]" | cut -c1-260 | head -${SEED_LINES:-14}
done
