#!/bin/bash
# usage: lib/confirm_seed.sh <Cxx> <n>
# Confirms a seeded change in its scratch worktree /tmp/seed/<Cxx>: the demo fails with the
# change and passes without it, and the repository suite still passes with the change.
# Writes /verif/seeded/<Cxx>-<n>/{patch.diff,demo.rs,NOTES.md,confirm.log,confirm.json}
set -u
id="$1"; n="$2"
wt=${SEED_ROOT:-/tmp/seed}/$id
sd=$wt/SEEDED
out=/verif/seeded/$id-${OUT_TAG:-}$n
mkdir -p "$out"
cp "$sd/patch$n.diff" "$out/patch.diff"
cp "$sd/demo$n.rs" "$out/demo.rs" 2>/dev/null || cp "$sd"/demo$n.* "$out/" 2>/dev/null
cp "$sd/NOTES.md" "$out/NOTES.md" 2>/dev/null
export CARGO_NET_OFFLINE=true
cd "$wt" || exit 2
git checkout -q -- . ; rm -f mla/tests/seeded_demo_confirm.rs mlar/tests/seeded_demo_confirm.rs
demo_dir=${DEMO_DIR:-mla/tests}
if [ -z "${DEMO_DIR:-}" ]; then
  if grep -q "assert_cmd\|cargo_bin" "$out/demo.rs" 2>/dev/null; then demo_dir=mlar/tests
  elif grep -q "curve25519_parser" "$out/demo.rs" 2>/dev/null && ! grep -q "mla::" "$out/demo.rs" 2>/dev/null; then demo_dir=curve25519-parser/tests; fi
fi
pkg=$(echo $demo_dir | cut -d/ -f1)
[ "$pkg" = "curve25519-parser" ] || true
mkdir -p $demo_dir
cp "$out/demo.rs" $demo_dir/seeded_demo_confirm.rs
log="$out/confirm.log"; : > "$log"
echo "### demo WITHOUT the change" >> "$log"
cargo test -p $pkg --offline --test seeded_demo_confirm >> "$log" 2>&1; rc_without=$?
git apply "$out/patch.diff" >> "$log" 2>&1 || { echo '{"applies": false}' > "$out/confirm.json"; exit 1; }
echo "### demo WITH the change" >> "$log"
cargo test -p $pkg --offline --test seeded_demo_confirm >> "$log" 2>&1; rc_with=$?
rm -f $demo_dir/seeded_demo_confirm.rs
echo "### repository suite WITH the change" >> "$log"
cargo nextest run --workspace --no-fail-fast --offline > "$out/suite.log" 2>&1
failed=$(grep -E "^\s+FAIL " "$out/suite.log" | grep -v test_repair_auth_unauth | sort -u | wc -l)
summary=$(grep -E "Summary" "$out/suite.log" | tail -1)
tail -5 "$out/suite.log" >> "$log"
rm -f "$out/suite.log"
git checkout -q -- .
python3 - "$out" "$rc_without" "$rc_with" "$failed" "$summary" <<'PY'
import json,sys
out,rw,rwi,failed,summary=sys.argv[1:6]
json.dump({"applies":True,"demo_passes_without_change":rw=="0","demo_fails_with_change":rwi!="0","suite_failures_other_than_known_flaky":int(failed),"suite_summary":summary.strip()},open(out+"/confirm.json","w"),indent=1)
PY
cat "$out/confirm.json"
