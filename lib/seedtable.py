#!/usr/bin/env python3
"""Regenerate the seeded-change table of DESIGN.md (between the SEEDTABLE markers) from seeded/*/meta.json."""
import json, os, re
S = "/verif/seeded"
rows = []
def key(d):
    m = re.match(r"C(\d+)-(?:r(\d)-)?(\d+)$", d)
    if not m:
        return (9, 0, 0)
    return (int(m.group(2) or 1), int(m.group(1)), int(m.group(3)))
n = missed = 0
for d in sorted(os.listdir(S), key=key):
    mp = os.path.join(S, d, "meta.json")
    if not os.path.exists(mp):
        continue
    m = json.load(open(mp))
    det = m["detected_by"]
    sig = det["signatures_seen"][0] if det["signatures_seen"] else "?"
    st = "*strengthened*" if det["note"].startswith("MISSED") else ""
    n += 1
    missed += 1 if st else 0
    ex = "" if det.get("exit_status", 1) == 1 else f" (exit {det.get('exit_status')})"
    rows.append(f"| {d} | {m['change']} | {m['needs_to_manifest']} | {det['check']}: `{sig}`{ex} | {st} |")
table = "\n".join(["| seeded | change | what it needs in order to manifest | caught by (quick tier) | |", "|---|---|---|---|---|"] + rows)
table += f"\n\n{n} changes; {missed} were missed by the checks as they stood when the change arrived and led to stronger workloads or monitors.\n"
p = "/verif/DESIGN.md"
s = open(p).read()
b, e = "<!-- SEEDTABLE:BEGIN -->", "<!-- SEEDTABLE:END -->"
if b in s:
    s = s[: s.index(b) + len(b)] + "\n" + table + s[s.index(e):]
    open(p, "w").write(s)
    print("table written:", n, "rows")
else:
    print(table)
