"""Per-property plans: which variants, which workloads, which must-hit classes."""
import json
import os
import subprocess

import orch
from orch import Run, build_variant, anchor, log

TRUSTED = [
    "the independent model uses the aes-gcm, hkdf, x25519-dalek and sha2 crates; brotli and sha2 are also used by the library, so a bug common to both sides is invisible",
    "scaled constant sets keep every relation between the production constants; a discrepancy seen only with scaled constants is reported as inconclusive, never as a violation",
]


def setup():
    build_variant("prod")
    for s in ("s1", "s2", "s3"):
        build_variant(s)
    orch.build_repo_bins()
    anchor(os.path.join(orch.TARGET, "prod", "debug", "vcheck"))
    return 0


def baseline():
    """Repository suite, hook feature off (nothing enables it)."""
    nt = "/w/lib/nextest.toml"
    if os.path.exists(nt):
        cmd = ["cargo", "nextest", "run", "--workspace", "--no-fail-fast", "--tool-config-file", f"pb:{nt}",
               "--profile", "pb", "--test-threads", "8", "--offline"]
    else:
        cmd = ["cargo", "test", "--workspace", "--no-fail-fast", "--offline"]
    return subprocess.run(cmd, cwd=orch.REPO, env=orch.cargo_env()).returncode


def need_repo_bins():
    d = orch.build_repo_bins()
    os.environ["VERIF_MLAR"] = os.path.join(d, "mlar")
    os.environ["VERIF_LIBMLA_DIR"] = d
    return d


def generic(prop, tier, seed, scaled_quick=("s1",), scaled_thorough=("s1", "s2", "s3"), prod=True,
            budgets=(300, 1800), level="exploration", rule="", musthit=(), assumptions=(), replay_candidates=True,
            extra_stages=None, softhit=()):
    run = Run(prop, tier, seed)
    prod_bin = build_variant("prod")
    anchor(prod_bin)
    budget = budgets[0] if tier == "quick" else budgets[1]
    scaled = scaled_quick if tier == "quick" else scaled_thorough
    for s in scaled:
        b = build_variant(s)
        run.run_stage(b, s, [prop], budget)
    if prod:
        run.run_stage(prod_bin, "prod", [prop], budget)
    if extra_stages:
        extra_stages(run, prod_bin, tier)
    if replay_candidates:
        run.replay_candidates_at_prod(prod_bin)
    return run.finish(level, rule, musthit=musthit, assumptions=list(TRUSTED) + list(assumptions), softhit=softhit)


def c01(tier, seed):
    return generic(
        "C01", tier, seed,
        rule="programs of writer calls (symbolic sizes relative to chunk/block edges) are run through the real writer, "
             "read back with one recipient key (varying read-buffer sizes) and compared with the reference map; "
             "distinct = distinct (program, reading key); non-trivial = at least 2 files, or 2 pieces, or one chunk of data",
        musthit=["musthit:encrypt_plaintext_multiple_of_chunk", "align:piece_end@chunk0", "align:stream_end@chunk0",
                 "align:piece_end@block0"],
        softhit=["musthit:compressed_block_end_next_to_chunk_edge", "musthit:compressed_block_ends_with_standalone_final_byte"],
    )


def c11(tier, seed):
    return generic(
        "C11", tier, seed,
        rule="layer readers built as `mlar info` builds them over model-encoded streams of every plaintext length are driven in lock-step "
             "with std::io::Cursor over the same plaintext (seek from start/current/end to targets in [0,len], reads, position queries); "
             "one evaluation = one (layer, length) with its set of histories; distinct = distinct (layer, length, seed); non-trivial = at least 2 operations",
        musthit=["musthit:seek_to_len", "musthit:seek_end_len_multiple_of_chunk", "musthit:position_query_in_last_partial_chunk",
                 "lenclass:enc:len%chunk=0", "lenclass:enc:len<tag", "lenclass:comp:len%block=0", "zero_size_reads", "held:comp_beyond_4gib"],
        softhit=["musthit:compressed_block_end_next_to_chunk_edge", "musthit:lone_unneeded_final_byte_starts_a_chunk",
                 "musthit:length_field_of_the_size_table_straddles_two_chunks"],
    )


SWEEP_MUSTHIT = ["musthit:cut_at_chunk_edge", "musthit:final_chunk_shorter_than_tag", "musthit:cut_inside_tag",
                 "musthit:cut_at_end_marker", "musthit:cut_inside_footer"]


def c02(tier, seed):
    return generic(
        "C02", tier, seed, level="fault_enumeration", budgets=(360, 1800),
        rule="fault = truncation of a valid archive at length n; every n (scaled constants) or every n within 40 bytes of every structural "
             "boundary plus a random sample (production constants) is repaired in both decryption modes and the output re-read with the "
             "normal reader; distinct = distinct (program, n, mode); non-trivial = the cut lies after the header and before the end",
        musthit=SWEEP_MUSTHIT,
    )


def c05(tier, seed):
    return generic(
        "C05", tier, seed, level="fault_enumeration", budgets=(400, 1800),
        rule="(a) undamaged archives (compressed streams ending on and next to block edges, every level, three entropies, many small entries) "
             "are repaired and must come back complete with status EndOfOriginalArchiveData; (b)(c) truncation sweeps as in C02 with the recovered "
             "length per file tracked along increasing prefix lengths (monotonicity) and compared with the model's lower bound (no compression); "
             "distinct = distinct (program, n, mode); non-trivial = cut strictly inside the archive",
        musthit=SWEEP_MUSTHIT + ["musthit:intact_compressed_point_on_block_edge", "musthit:many_small_entries", "monotonicity_comparisons"],
    )


def c04(tier, seed):
    return generic(
        "C04", tier, seed, level="fault_enumeration", budgets=(300, 1800),
        rule="fault = corruption of one encrypted chunk k (bit flip in its payload, bit flip in its tag, truncation inside it) of a valid encrypted archive, "
             "for every chunk index; contents are aligned so that a block header starts chunk k+1; the authenticated repair output is compared with the bytes "
             "the model finds in the plaintext of chunks 0..k-1 (upper bound) and with the unauthenticated output; distinct = distinct (program, fault); all are non-trivial",
        musthit=["musthit:k0", "musthit:klast", "musthit:kmid", "musthit:kmid_with_block_header_at_next_chunk", "musthit:adversarial_content_parses_as_blocks",
                 "musthit:flip_in_the_file_id_of_a_content_block"],
    )


def c03(tier, seed):
    return generic(
        "C03", tier, seed, level="fault_enumeration", budgets=(300, 1800),
        rule="fault = one alteration of a valid encrypted archive: every single-bit flip of every byte (scaled constants), flips around every structural "
             "boundary / in every chunk payload and tag / every header byte plus samples (production), and chunk-level edits (swap, duplicate, delete, copy, "
             "chunk of a twin archive, tag swap, middle dropped, truncation at chunk edges, foreign header); the normal reader is driven over every listed file "
             "in a random order with random buffer sizes and every returned byte, name, size and hash is compared with the original; "
             "distinct = distinct (program, alteration); non-trivial = the altered bytes differ from the original",
        musthit=["unaltered_archive_read_through_short_read_source", "musthit:whole_chunks_exchanged_at_distance_256", "outcome:flip:header:error_at_open", "outcome:flip:chunk_tag:error_at_open", "outcome:none:chunks:original_data_returned",
                 "outcome:chunk_swap:chunks:error_at_open", "outcome:chunk_from_other:chunks:error_at_open"],
    )


def c06(tier, seed):
    return generic(
        "C06", tier, seed, scaled_quick=(), scaled_thorough=(), budgets=(360, 1800),
        rule="direction 1: archives written by the library (the C01 production programs) are decoded by an independent implementation of FORMAT.md with every "
             "structural statement checked (tag of chunk i under nonce||BE32(i), non-final chunks of 128 KiB, non-final blocks of 4 MiB, footers, hashes); "
             "direction 2: archives encoded by the independent implementation (own block splitting incl. empty blocks, ids, recipient order, brotli quality) are read by "
             "get_file, linear_extract and repair; cipher core: AesGcm256 against the aes-gcm crate for boundary lengths x split shapes; "
             "distinct = distinct case; non-trivial = a program with 2 files/pieces or one chunk, any model-encoded archive, any non-empty message",
        musthit=["lib_to_model:layers1", "lib_to_model:layers3", "model_to_lib:layers3", "model_to_lib:with_empty_content_blocks", "held:cipher", "recipient_key_among_stranger_candidates",
                 "structural:chunks_verified_with_nonce_be32_index"],
        assumptions=["FORMAT.md's worked example lists an offset for every block of a file while the structure comment says 'continuous chunks'; the model encoder emits run starts (not tested as a demand)"],
    )


def c10(tier, seed):
    return generic(
        "C10", tier, seed, budgets=(300, 1800),
        rule="histories of list / get_file / read(buffer) / abandon / get_hash on one opened reader over archives of interleaved files spanning several chunks "
             "and blocks; every returned byte count, byte, end-of-file position, size and hash is compared with the reference bytes of the file; constructive "
             "sub-histories abandon a file at every offset (scaled) or offset class (production) and then open another / the same file or ask a hash; "
             "distinct = distinct (program, history); non-trivial = at least 3 operations",
        musthit=["abandon:inside", "abandon:at_end", "abandon:at_start", "op:hash", "op:list", "op:read_all"],
    )


def c12(tier, seed):
    return generic(
        "C12", tier, seed, budgets=(300, 1800),
        rule="(a) linear_extract of a subset (empty, one, all, random) of heavily interleaved archives into sinks that accept part of each write, compared "
             "with get_file on a second reader; (b) archives encoded by the independent implementation whose block stream lacks the end-of-data marker "
             "(all blocks, cut at a block edge, cut inside a block) before a valid footer and under valid outer layers: linear_extract must fail; "
             "distinct = distinct case; non-trivial = at least 2 files or a marker-less archive",
        musthit=["subset:empty", "subset:one", "subset:all", "reader:after_get_hash", "reader:after_get_file", "reader:after_linear_extract", "held:extract", "held:no_marker_refused", "held:source_ending_between_two_blocks_refused", "no_marker:all_blocks", "no_marker:cut_inside_block"],
        assumptions=["marker-less archives have at most 64 files: with 254 (mod 256) files the first footer byte equals the marker byte (format limitation); "
                     "cases where the footer bytes, read as typed blocks by a grammar-only reader, lead to a 0xFE type byte are skipped as format coincidences"],
    )


def c13(tier, seed):
    return generic(
        "C13", tier, seed, level="fault_enumeration", budgets=(300, 1800),
        rule="fault = transfer schedule: archives are written through destinations accepting 1 / 1..7 / random / <=4095 bytes per call or interrupting every "
             "2nd/3rd call and read back; read and repaired (both modes, intact and cut) through sources returning as few bytes per call, and compared with the "
             "results obtained from memory; distinct = distinct (program, schedule, side); all non-trivial",
        musthit=["musthit:compress_only_one_byte_source_repair", "write:Interrupt", "write:Max", "read:Max", "read:StopAt", "held:repair"],
        softhit=["musthit:full_block_whose_last_byte_is_not_needed"],
    )


def c14(tier, seed):
    return generic(
        "C14", tier, seed, level="fault_enumeration", budgets=(300, 1800),
        rule="fault = cut right after flush() returned: the bytes the destination holds at that moment are repaired in both modes; every file must come back "
             "with at least the bytes appended before the flush (plain / unauthenticated) or the bytes the independent decoder finds in completed encryption "
             "chunks (authenticated); distinct = distinct (program, flush index); non-trivial = something was appended before the flush",
        musthit=["musthit:compressible_200000_then_flush", "musthit:flush_exactly_on_block_edge", "flush:layers0", "flush:layers1", "flush:layers2", "flush:layers3",
                 "snapshot_repaired_from_short_read_source"],
        softhit=["musthit:flush_with_less_than_a_tag_in_the_chunk_in_progress", "musthit:block_end_after_input_window_edge_last_byte_not_needed"],
    )


def c09(tier, seed):
    return generic(
        "C09", tier, seed, budgets=(300, 1800),
        rule="call sequences over {start(fresh|duplicate|empty|65536 B|65537 B, ascii and multi-byte), append(open|ended|never-issued id; sizes 0,1,chunk+-1, "
             "or sized so that the next block header straddles a chunk/block edge by -1..17 bytes; exact|short|long source), "
             "end(open|ended|never), add, flush, finalize}: all sequences up to length 3 (quick) / 4 (thorough) and sampled sequences of 6..40 calls on 4 layer combos; "
             "twin writers (W1 gets every call, W2 only those the reference model accepts) are finalized and compared through the reader and the independent decoder; "
             "distinct = distinct (layers, sequence); non-trivial = at least 2 calls",
        musthit=["call:duplicate-name", "call:name-too-long", "call:append-short-source", "call:append-ended-or-unknown-id", "call:finalize-with-open-file",
                 "call:start-after-finalize", "continued_after_refusal", "twin_comparisons_after_refusal",
                 "musthit:block_header_straddles_layer_edge"],
    )


def c07(tier, seed):
    return generic(
        "C07", tier, seed, budgets=(300, 1800),
        rule="(i) archives built with identical inputs in one process and in child processes: symmetric key, archive nonce, ephemeral public key and every "
             "wrapped key must all be distinct and no bit position constant over the pool; (ii) 24-byte high-entropy probes of every file content and every "
             "file name are searched in the bytes after the header, over every append size class with flushes in between (ENCRYPT and ENCRYPT|COMPRESS with "
             "incompressible content); (iii) recipients 1..6: the right key at every position among wrong keys must open, wrong keys / no key must not; "
             "distinct = distinct case; all non-trivial",
        musthit=["musthit:cross_process_archives", "scan:layers1", "scan:layers3", "keylist:opened_by_recipient", "keylist:refused_for_non_recipient",
                 "keylist:recipient_at_position_3", "recipients:85+", "config_route:4", "config_route:5",
                 "musthit:archives_created_on_both_sides_of_a_fork", "recipients_registered_one_call_at_a_time"],
        assumptions=["non-repetition and non-constant bits are observed, not randomness: a constant, counter or clock seed is caught, a subtly biased generator is not"],
    )


def c08_extra(run, prod_bin, tier):
    """thorough: the same corpus under AddressSanitizer (memory errors inside dependencies reached by hostile input)"""
    if tier != "thorough":
        return
    try:
        b = build_variant("asan")
    except orch.HarnessError as e:
        run.inconc.append(dict(what="asan build unavailable", detail=str(e)))
        return
    run.run_stage(b, "asan", ["C08"], 600, name="C08@asan")


def c08(tier, seed):
    return generic(
        "C08", tier, seed, scaled_quick=(), scaled_thorough=(), budgets=(300, 1800), extra_stages=c08_extra,
        rule="hostile byte strings: valid archives (4 layer combos) with 1..3 structured mutations (truncate, bit flip, byte / u32 / u64 overwrite with boundary values, "
             "splice, insert, delete, append) applied to the raw file, to the compression-layer bytes or to the block stream + footer and then wrapped in valid outer "
             "layers by the independent encoder; forged footers / size tables / block lengths with boundary values, very long offset lists, raw random bytes, empty "
             "input; each is opened, listed, read, hashed, linearly extracted (with a random history continuing after errors, then dropped) and repaired in both modes "
             "under a panic trap, a counting allocator (ceiling 16*len + 640 MiB) and an instrumented source (read calls <= 64*len + 1e6); process deaths are attributed "
             "through a journal; distinct = distinct (bytes, history seed); non-trivial = non-empty input",
        musthit=["forge:DeepOffsets", "forge:SizesEntry", "forge:FooterLen", "mutation:trunc", "mutation:flip", "after_error_continuations",
                 "outcome:mutated:open:err", "outcome:mutated:repair:ok", "outcome:forged:get_file+read:err"],
        assumptions=["a wall-clock watchdog (90 s quick / 400 s thorough per case) and the orchestrator's stage timeout only ever yield INCONCLUSIVE",
                     "built with overflow checks and debug assertions on, the profile the repository's own suite runs in"],
    )


def c15(tier, seed):
    return generic(
        "C15", tier, seed, scaled_quick=(), scaled_thorough=(), budgets=(600, 2400),
        rule="peak live heap (counting allocator, one child process per measurement) while writing from a generator to a discarding sink, repairing and linearly "
             "extracting (all files, or only one with the others skipped) an archive streamed from a scratch file; two shapes (4 files x 16 interleaved runs; one file added in a single piece), sizes 8 and 64 MiB (quick) or 16, 128 and 1024 MiB "
             "(thorough), 4 layer combos, several levels, incompressible and constant data; verdict: peak(largest) - peak(smallest) <= 2 MiB and peak under a frozen "
             "ceiling; distinct = distinct (operation, layers, level, data, size); all non-trivial",
        musthit=["growth_comparisons:write", "growth_comparisons:repair", "growth_comparisons:extract", "shape:oneblock", "shape:interleaved:subset_extraction", "shape:oneblock:subset_extraction",
                 "shape:twoopen", "shape:manyparts", "shape:shortsource", "sources_with_short_reads"],
        assumptions=["decided for the sizes actually streamed; not extrapolated beyond them"],
    )


def c18(tier, seed):
    return generic(
        "C18", tier, seed, scaled_quick=(), scaled_thorough=(), budgets=(300, 1800),
        rule="round-trip laws on generated pairs (DER and PEM of both halves; public half recomputed with x25519-dalek), on Ed25519 pairs built by the harness with "
             "curve25519-dalek (clamp(SHA-512(seed)[..32]).B), PEM presentation variants, concatenated PEM public keys; totality: every single-byte substitution and "
             "every truncation of the four DER forms, PEM mutations, length/tag edits and random bytes through the five public parsers under a panic trap and the "
             "counting allocator; distinct = distinct input; all non-trivial",
        musthit=["held:pair", "held:ed25519", "held:pem-many", "hostile:refused", "pem_variant0:accepted", "pair_patterned_key_bytes",
                 "pem_many_with_repeated_keys"],
    )


def c19(tier, seed):
    need_repo_bins()
    return generic(
        "C19", tier, seed, scaled_quick=(), scaled_thorough=(), budgets=(300, 1800),
        rule="the mlar binary built from the tree is run for keygen --seed and keyderive (X25519 DER/PEM and Ed25519 parents, path lists of length 1..5 with repeated and "
             "empty paths, unicode / empty / 10 kB strings); the files it writes are compared with the harness's own implementation of the README algorithm (SHA-512, hand-written "
             "ChaCha20 block function, hand-written HMAC/HKDF-SHA512, x25519 base-point multiple), determinism, composition along (p1..pn) vs p1..pn-1 then pn, public matches private; "
             "distinct = distinct inputs; all non-trivial",
        musthit=["keygen", "keyderive:paths1", "keyderive:composition_checked", "keyderive:reading_compared_between_ed25519_and_x25519_parents", "held"],
        assumptions=["README says the HKDF input is 'the clamped private key'; x25519-dalek 2.0's to_bytes() gives the stored bytes before clamping; both readings are accepted and the one observed is reported"],
    )


def c16(tier, seed):
    need_repo_bins()
    return generic(
        "C16", tier, seed, scaled_quick=(), scaled_thorough=(), budgets=(360, 1800),
        rule="archives whose member names come from a path grammar ('/', '.', '..', normal, empty, 255- and 256-byte, unicode components in every position, trailing "
             "separators, absolute names pointing into sibling canary directories, names going through a pre-existing symlink) are built with the library and extracted by "
             "the mlar binary built from the tree in its three forms (whole archive, listed names, glob) with relative and absolute output arguments; observer 1: strace log "
             "of every successful file-mutating syscall, each path resolved and classified; observer 2: snapshot (type, size, SHA-256) of the sandbox outside the output "
             "directory before and after; members without '..' that do not collide and fit OS limits must be extracted exactly; distinct = distinct case; non-trivial = >= 2 members",
        musthit=["musthit:absolute_name", "musthit:dotdot_in_the_middle", "form:whole_archive_linear", "form:listed_names", "form:glob",
                 "syscalls_inside_output_dir", "members_extracted_exactly", "snapshot_unchanged_outside_output_dir",
                 "musthit:member_reaching_an_existing_outside_file_through_a_symlink", "musthit:component_of_exactly_255_bytes",
                 "musthit:more_members_open_at_once_than_the_output_pool", "musthit:member_at_a_dangling_symlink",
                 "musthit:member_through_a_link_to_a_sibling_with_the_same_path_prefix", "musthit:dots_that_are_not_a_parent_directory_component"],
        assumptions=["a member through a pre-existing symlink, a component over 255 bytes, an over-long path or a file/directory conflict puts the archive under the containment clause only"],
    )


def c17(tier, seed):
    need_repo_bins()
    return generic(
        "C17", tier, seed, scaled_quick=(), scaled_thorough=(), budgets=(480, 1800),
        rule="generated file trees (empty files, nested directories, unicode and spaces, sizes 0, 1, 128 KiB +- 1, 4 MiB +- 1 in thorough) are archived by `mlar create` "
             "(file list or directory recursion; none/compress/encrypt/both; levels; 1-3 recipient keys incl. an Ed25519 sample pair) and followed by chains of "
             "convert / repair to other layer and key choices; after every step list, list -vv (size within rounding, SHA-256), cat, extract (whole and one listed "
             "name) and to-tar (parsed with the tar crate) are compared with the input files; wrong key, no key and a key for an unencrypted archive must make every "
             "content command exit non-zero and leave no output content; distinct = distinct case; non-trivial = >= 2 files or a pipeline step",
        musthit=["cmd:list", "cmd:list-vv", "cmd:cat", "cmd:extract-all", "cmd:extract-listed", "cmd:to-tar", "step:convert", "step:repair",
                 "keyclause:wrong-key:list", "keyclause:no-key:cat", "keyclause:key-for-unencrypted-archive:repair", "name_longer_than_100_bytes"],
    )


def build_c_driver():
    d = need_repo_bins()
    src = os.path.join(orch.HARNESS, "capi", "drv.c")
    inc = os.path.join(orch.REPO, "bindings", "C")
    lib = os.path.join(d, "libmla.a")
    common = ["-g", "-O1", "-I", inc, src, lib, "-lpthread", "-ldl", "-lm"]
    for out, extra in (("c20drv_asan", ["-fsanitize=address,undefined", "-fno-sanitize-recover=undefined"]), ("c20drv", [])):
        r = subprocess.run(["clang"] + extra + common + ["-o", os.path.join(orch.TARGET, out)], stdout=subprocess.PIPE, stderr=subprocess.STDOUT, text=True)
        if r.returncode != 0:
            print(r.stdout[-3000:])
            raise orch.HarnessError("C driver does not build against the bindings of the tree")
    os.environ["VERIF_C20_DIR"] = orch.TARGET
    log("[build] C driver (ASan+UBSan and plain) linked against libmla.a")


def c20_miri(run, prod_bin, tier):
    """thorough: the bindings' source compiled into a Rust driver and interpreted by Miri (no FFI boundary)"""
    if tier != "thorough":
        return
    import re as _re
    crate = os.path.join(orch.HARNESS, "capi_miri")
    lock = os.path.join(crate, "Cargo.lock")
    if not os.path.exists(lock):
        import shutil as _sh
        _sh.copy(os.path.join(orch.REPO, "Cargo.lock"), lock)
    env = orch.cargo_env()
    env["MIRIFLAGS"] = "-Zmiri-disable-isolation"
    tdir = os.path.join(orch.TARGET, "miri")
    base = ["cargo", "+nightly", "miri", "run", "--offline", "--target-dir", tdir, "--"]
    # build once (first scenario), then the others in parallel
    procs = []
    import time as _t
    t0 = _t.time()
    first = subprocess.run(base + ["2"], cwd=crate, env=env, stdout=subprocess.PIPE, stderr=subprocess.PIPE, text=True, timeout=3600)
    results = {2: first}
    for sc in (0, 1, 3, 4, 5):
        procs.append((sc, subprocess.Popen(base + [str(sc)], cwd=crate, env=env, stdout=subprocess.PIPE, stderr=subprocess.PIPE, text=True)))
    for sc, p in procs:
        try:
            out, err = p.communicate(timeout=3600)
            results[sc] = subprocess.CompletedProcess(p.args, p.returncode, out, err)
        except subprocess.TimeoutExpired:
            p.kill()
            run.inconc.append(dict(what="miri scenario timed out", scenario=sc))
    names = {0: "create_full_writes", 1: "create_partial_writes", 2: "null_and_cleared_handles", 3: "extract_partial_reads_and_writes",
             4: "failing_write_callback", 5: "failing_flush_callback_then_reuse"}
    for sc, r in sorted(results.items()):
        run.evaluations += 1
        run.fps.add(0xC20_0000 + sc)
        run.counters[f"miri:{names[sc]}"] = run.counters.get(f"miri:{names[sc]}", 0) + 1
        if r.returncode == 0 and f"scenario {sc} done" in r.stdout:
            run.counters["miri:scenarios_clean"] = run.counters.get("miri:scenarios_clean", 0) + 1
            continue
        m = _re.search(r"error: Undefined Behavior: ([^\n]*)", r.stderr)
        if m:
            cls = _re.sub(r"[0-9<>x\[\]]+", "#", m.group(1))[:80]
            frames = [l.strip() for l in r.stderr.splitlines() if "/repo/bindings" in l][:3]
            run.viols.append(dict(k="viol", prop="C20", sig=f"miri-undefined-behavior:{names[sc]}:{cls}", scale="prod",
                                  scenario={"miri_scenario": sc}, detail=dict(message=m.group(1)[:300], frames=frames), **{"from": "C20"}))
        elif "panicked at" in r.stderr:
            msg = r.stderr[r.stderr.index("panicked at"):][:400]
            run.viols.append(dict(k="viol", prop="C20", sig=f"miri-assertion:{names[sc]}", scale="prod",
                                  scenario={"miri_scenario": sc}, detail=dict(message=msg), **{"from": "C20"}))
        else:
            run.inconc.append(dict(what="miri scenario did not complete", scenario=sc, stderr=r.stderr[-400:]))
    run.stages.append(dict(name="C20@miri", scale="prod", scenarios=len(results), wall_s=round(_t.time() - t0, 1)))
    log(f"[stage] C20@miri: {len(results)} scenarios interpreted, {run.counters.get('miri:scenarios_clean', 0)} clean")


def c20(tier, seed):
    build_c_driver()
    return generic(
        "C20", tier, seed, scaled_quick=(), scaled_thorough=(), budgets=(480, 1800), extra_stages=c20_miri,
        rule="a C driver compiled with ASan+UBSan (a subset also uninstrumented under valgrind memcheck) and linked against libmla.a built from the tree interprets "
             "generated programs: archive creation through mla_archive_file_new/append/flush/close with write callbacks following an acceptance schedule (1 byte, 1..7, "
             "4095, ...), read back by the Rust reader and compared with what was passed in; extraction of library-written archives through mla_roarchive_extract with "
             "caller-supplied writers, compared byte for byte; injected callback failures must surface as an error status; every entry point is called with null "
             "handles, handles the interface cleared, and null callbacks, each in its own process: error status, no crash, no sanitizer report; "
             "distinct = distinct case; all non-trivial",
        musthit=["held:create_read_back_by_rust_reader", "held:extract_hands_exact_bytes", "held:callback_failure_gives_error_status",
                 "held:invalid_handle_gives_error_status", "create:valgrind", "extract:valgrind", "null_or_stale_handle_call",
                 "create:write_callback_reports_interruptions", "create:several_recipients_in_one_pem_list", "extract:after_info_on_the_same_context",
                 "extract:after_a_failed_extraction_on_the_same_context"],
    )


PROPS = {
    "C01": c01,
    "C20": c20,
    "C17": c17,
    "C16": c16,
    "C18": c18,
    "C19": c19,
    "C15": c15,
    "C08": c08,
    "C07": c07,
    "C09": c09,
    "C12": c12,
    "C13": c13,
    "C14": c14,
    "C10": c10,
    "C06": c06,
    "C03": c03,
    "C04": c04,
    "C02": c02,
    "C05": c05,
    "C11": c11,
}


def replay(path):
    rec = json.load(open(path))
    prop = rec["property"]
    prod_bin = build_variant("prod")
    run = Run(prop + "-replay", "quick", rec.get("seed", 1))
    cfile = os.path.join(run.dir, "one.jsonl")
    with open(cfile, "w") as f:
        f.write(json.dumps({"prop": prop, "from": rec.get("from_check", prop), "scenario": rec["scenario"], "cand": 0}) + "\n")
    run.run_stage(prod_bin, "prod", ["replay", "--file", cfile], 600, shards=1)
    got = [v for v in run.viols if v["prop"] == prop]
    for v in run.viols:
        log(f"replayed: property={v['prop']} signature={v['sig']} detail={json.dumps(v.get('detail'))[:500]}")
    run.cleanup()
    if got:
        log(f"VIOLATION property={prop} replay={path}")
        return 1
    log("replay: the property held on this case")
    return 0
