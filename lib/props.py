"""Per-property plans: which variants, which workloads, which must-hit classes."""
import json
import os
import subprocess

import orch
from orch import Run, build_variant, anchor, log

TRUSTED = [
    "the independent model uses the aes-gcm, hkdf, x25519-dalek and sha2 crates; brotli and sha2 are also used by the library, so a bug common to both sides is invisible",
    "scaled constant sets keep every relation between the production constants; a discrepancy seen only with scaled constants is reported as inconclusive, never as a violation",
]


def setup():
    build_variant("prod")
    for s in ("s1", "s2", "s3"):
        build_variant(s)
    orch.build_repo_bins()
    anchor(os.path.join(orch.TARGET, "prod", "debug", "vcheck"))
    return 0


def baseline():
    """Repository suite, hook feature off (nothing enables it)."""
    nt = "/w/lib/nextest.toml"
    if os.path.exists(nt):
        cmd = ["cargo", "nextest", "run", "--workspace", "--no-fail-fast", "--tool-config-file", f"pb:{nt}",
               "--profile", "pb", "--test-threads", "8", "--offline"]
    else:
        cmd = ["cargo", "test", "--workspace", "--no-fail-fast", "--offline"]
    return subprocess.run(cmd, cwd=orch.REPO, env=orch.cargo_env()).returncode


def generic(prop, tier, seed, scaled_quick=("s1",), scaled_thorough=("s1", "s2", "s3"), prod=True,
            budgets=(60, 600), level="exploration", rule="", musthit=(), assumptions=(), replay_candidates=True,
            extra_stages=None):
    run = Run(prop, tier, seed)
    prod_bin = build_variant("prod")
    anchor(prod_bin)
    budget = budgets[0] if tier == "quick" else budgets[1]
    scaled = scaled_quick if tier == "quick" else scaled_thorough
    for s in scaled:
        b = build_variant(s)
        run.run_stage(b, s, [prop], budget)
    if prod:
        run.run_stage(prod_bin, "prod", [prop], budget)
    if extra_stages:
        extra_stages(run, prod_bin, tier)
    if replay_candidates:
        run.replay_candidates_at_prod(prod_bin)
    return run.finish(level, rule, musthit=musthit, assumptions=list(TRUSTED) + list(assumptions))


def c01(tier, seed):
    return generic(
        "C01", tier, seed,
        rule="programs of writer calls (symbolic sizes relative to chunk/block edges) are run through the real writer, "
             "read back with one recipient key (varying read-buffer sizes) and compared with the reference map; "
             "distinct = distinct (program, reading key); non-trivial = at least 2 files, or 2 pieces, or one chunk of data",
        musthit=["musthit:encrypt_plaintext_multiple_of_chunk", "align:piece_end@chunk0", "align:stream_end@chunk0",
                 "align:piece_end@block0"],
    )


def c11(tier, seed):
    return generic(
        "C11", tier, seed,
        rule="layer readers built as `mlar info` builds them over model-encoded streams of every plaintext length are driven in lock-step "
             "with std::io::Cursor over the same plaintext (seek from start/current/end to targets in [0,len], reads, position queries); "
             "one evaluation = one (layer, length) with its set of histories; distinct = distinct (layer, length, seed); non-trivial = at least 2 operations",
        musthit=["musthit:seek_to_len", "musthit:seek_end_len_multiple_of_chunk", "musthit:position_query_in_last_partial_chunk",
                 "lenclass:enc:len%chunk=0", "lenclass:enc:len<tag", "lenclass:comp:len%block=0"],
    )


SWEEP_MUSTHIT = ["musthit:cut_at_chunk_edge", "musthit:final_chunk_shorter_than_tag", "musthit:cut_inside_tag",
                 "musthit:cut_at_end_marker", "musthit:cut_inside_footer"]


def c02(tier, seed):
    return generic(
        "C02", tier, seed, level="fault_enumeration", budgets=(90, 900),
        rule="fault = truncation of a valid archive at length n; every n (scaled constants) or every n within 40 bytes of every structural "
             "boundary plus a random sample (production constants) is repaired in both decryption modes and the output re-read with the "
             "normal reader; distinct = distinct (program, n, mode); non-trivial = the cut lies after the header and before the end",
        musthit=SWEEP_MUSTHIT,
    )


def c05(tier, seed):
    return generic(
        "C05", tier, seed, level="fault_enumeration", budgets=(100, 1200),
        rule="(a) undamaged archives (compressed streams ending on and next to block edges, every level, three entropies, many small entries) "
             "are repaired and must come back complete with status EndOfOriginalArchiveData; (b)(c) truncation sweeps as in C02 with the recovered "
             "length per file tracked along increasing prefix lengths (monotonicity) and compared with the model's lower bound (no compression); "
             "distinct = distinct (program, n, mode); non-trivial = cut strictly inside the archive",
        musthit=SWEEP_MUSTHIT + ["musthit:intact_compressed_point_on_block_edge", "musthit:many_small_entries", "monotonicity_comparisons"],
    )


def c04(tier, seed):
    return generic(
        "C04", tier, seed, level="fault_enumeration", budgets=(60, 600),
        rule="fault = corruption of one encrypted chunk k (bit flip in its payload, bit flip in its tag, truncation inside it) of a valid encrypted archive, "
             "for every chunk index; contents are aligned so that a block header starts chunk k+1; the authenticated repair output is compared with the bytes "
             "the model finds in the plaintext of chunks 0..k-1 (upper bound) and with the unauthenticated output; distinct = distinct (program, fault); all are non-trivial",
        musthit=["musthit:k0", "musthit:klast", "musthit:kmid", "musthit:kmid_with_block_header_at_next_chunk"],
    )


def c03(tier, seed):
    return generic(
        "C03", tier, seed, level="fault_enumeration", budgets=(60, 900),
        rule="fault = one alteration of a valid encrypted archive: every single-bit flip of every byte (scaled constants), flips around every structural "
             "boundary / in every chunk payload and tag / every header byte plus samples (production), and chunk-level edits (swap, duplicate, delete, copy, "
             "chunk of a twin archive, tag swap, middle dropped, truncation at chunk edges, foreign header); the normal reader is driven over every listed file "
             "in a random order with random buffer sizes and every returned byte, name, size and hash is compared with the original; "
             "distinct = distinct (program, alteration); non-trivial = the altered bytes differ from the original",
        musthit=["outcome:flip:header:error_at_open", "outcome:flip:chunk_tag:error_at_open", "outcome:none:chunks:original_data_returned",
                 "outcome:chunk_swap:chunks:error_at_open", "outcome:chunk_from_other:chunks:error_at_open"],
    )


PROPS = {
    "C01": c01,
    "C03": c03,
    "C04": c04,
    "C02": c02,
    "C05": c05,
    "C11": c11,
}


def replay(path):
    rec = json.load(open(path))
    prop = rec["property"]
    prod_bin = build_variant("prod")
    run = Run(prop + "-replay", "quick", rec.get("seed", 1))
    cfile = os.path.join(run.dir, "one.jsonl")
    with open(cfile, "w") as f:
        f.write(json.dumps({"prop": prop, "from": rec.get("from_check", prop), "scenario": rec["scenario"], "cand": 0}) + "\n")
    run.run_stage(prod_bin, "prod", ["replay", "--file", cfile], 600, shards=1)
    got = [v for v in run.viols if v["prop"] == prop]
    for v in run.viols:
        log(f"replayed: property={v['prop']} signature={v['sig']} detail={json.dumps(v.get('detail'))[:500]}")
    run.cleanup()
    if got:
        log(f"VIOLATION property={prop} replay={path}")
        return 1
    log("replay: the property held on this case")
    return 0
