"""Orchestrator for the runtime-monitoring checks of ANSSI-FR/MLA.

Builds the harness variants from /repo's working tree, runs the sharded
workloads of one property, re-instantiates scaled-constant discrepancies at
production constants, matches known findings, writes evidence and prints the
verdict lines. Exit: 0 held, 1 violation, 2 harness error.
"""
import array
import hashlib
import json
import os
import re
import shutil
import signal
import subprocess
import sys
import time

VERIF = os.path.dirname(os.path.dirname(os.path.abspath(__file__)))
REPO = os.environ.get("VERIF_REPO_DIR", "/repo")
HARNESS = os.path.join(VERIF, "harness")
TARGET = os.path.join(VERIF, "target")
SCRATCH = os.path.join(VERIF, "scratch")
NCPU = int(os.environ.get("VERIF_JOBS", str(os.cpu_count() or 16)))

SCALES = {
    "prod": None,
    "s1": dict(cbuf=32, chunk=128, block=1024, fsbuf=64, cache=2048),
    "s2": dict(cbuf=16, chunk=64, block=512, fsbuf=32, cache=1024),
    "s3": dict(cbuf=64, chunk=256, block=4096, fsbuf=128, cache=8192),
}


class HarnessError(Exception):
    pass


def log(msg):
    print(msg, flush=True)


def cargo_env(scale=None):
    env = dict(os.environ)
    env["CARGO_NET_OFFLINE"] = "true"
    env.pop("RUSTFLAGS", None)
    for k in list(env):
        if k.startswith("MLA_VERIF_"):
            del env[k]
    if scale and SCALES[scale]:
        s = SCALES[scale]
        env["MLA_VERIF_CIPHER_BUF_SIZE"] = str(s["cbuf"])
        env["MLA_VERIF_CHUNK_SIZE"] = str(s["chunk"])
        env["MLA_VERIF_UNCOMPRESSED_DATA_SIZE"] = str(s["block"])
        env["MLA_VERIF_FAIL_SAFE_BUFFER_SIZE"] = str(s["fsbuf"])
        env["MLA_VERIF_CACHE_SIZE"] = str(s["cache"])
    return env


def ensure_lock():
    """The harness workspace uses the repository's lock file (offline resolution)."""
    dst = os.path.join(HARNESS, "Cargo.lock")
    if not os.path.exists(dst):
        shutil.copy(os.path.join(REPO, "Cargo.lock"), dst)


def build_variant(scale):
    """(Re)build vcheck for a constant set from /repo's current working tree."""
    ensure_lock()
    tdir = os.path.join(TARGET, scale)
    cmd = ["cargo", "build", "--offline", "-p", "vcheck", "--target-dir", tdir]
    env = cargo_env(scale if scale in SCALES else None)
    binp = os.path.join(tdir, "debug", "vcheck")
    if scale == "asan":
        # AddressSanitizer build (nightly), production constants
        cmd = ["cargo", "+nightly", "build", "--offline", "-p", "vcheck", "--target-dir", tdir, "--target", "x86_64-unknown-linux-gnu"]
        env["RUSTFLAGS"] = "-Zsanitizer=address -Cforce-frame-pointers=yes"
        binp = os.path.join(tdir, "x86_64-unknown-linux-gnu", "debug", "vcheck")
    elif scale != "prod":
        cmd += ["--features", "scaled"]
    t0 = time.time()
    r = subprocess.run(cmd, cwd=HARNESS, env=env, stdout=subprocess.PIPE, stderr=subprocess.STDOUT, text=True)
    if r.returncode != 0:
        sys.stdout.write(r.stdout[-6000:])
        raise HarnessError(f"build of variant {scale} failed")
    if scale not in ("prod", "asan"):
        got = json.loads(subprocess.run([binp, "consts"], stdout=subprocess.PIPE, text=True).stdout)
        want = SCALES[scale]
        if any(got[k] != want[k] for k in want):
            raise HarnessError(f"variant {scale} compiled with {got}, wanted {want}")
    log(f"[build] variant {scale} ready in {time.time() - t0:.1f}s")
    return binp


def build_repo_bins():
    """mlar and the C bindings, built from the working tree with the suite's arithmetic profile."""
    tdir = os.path.join(TARGET, "repo-bin")
    cmd = ["cargo", "build", "--offline", "-p", "mlar", "-p", "mla-bindings-c", "--target-dir", tdir,
           "--config", "profile.dev.opt-level=2"]
    t0 = time.time()
    r = subprocess.run(cmd, cwd=REPO, env=cargo_env(), stdout=subprocess.PIPE, stderr=subprocess.STDOUT, text=True)
    if r.returncode != 0:
        sys.stdout.write(r.stdout[-6000:])
        raise HarnessError("build of mlar / bindings failed")
    log(f"[build] repo binaries ready in {time.time() - t0:.1f}s")
    return os.path.join(tdir, "debug")


def anchor(binp):
    r = subprocess.run([binp, "anchor", "--repo", REPO], stdout=subprocess.PIPE, stderr=subprocess.STDOUT, text=True)
    if r.returncode != 0:
        sys.stdout.write(r.stdout)
        raise HarnessError("independent model does not reproduce the values printed in FORMAT.md")
    log("[anchor] " + r.stdout.strip())


class Run:
    """State of one property check."""

    def __init__(self, prop, tier, seed):
        self.prop = prop
        self.tier = tier
        self.seed = seed
        self.t0 = time.time()
        self.dir = os.path.join(SCRATCH, f"{prop}-{os.getpid()}")
        shutil.rmtree(self.dir, ignore_errors=True)
        os.makedirs(self.dir)
        self.evaluations = 0
        self.counters = {}
        self.samples = []
        self.fps = set()
        self.viols = []  # records
        self.inconc = []
        self.forwarded = {}
        self.stages = []
        self.timed_out_shards = 0
        self.extra = {}

    def cleanup(self):
        shutil.rmtree(self.dir, ignore_errors=True)

    # ------------------------------------------------------------ running stages
    def run_stage(self, binp, scale, args, budget_s, name=None, shards=None, hard_factor=2.0):
        """Run `vcheck <args>` sharded over the cores; merge the JSONL output."""
        shards = shards or NCPU
        name = name or f"{args[0]}@{scale}"
        sdir = os.path.join(self.dir, name.replace("/", "_").replace(" ", "_"))
        os.makedirs(sdir, exist_ok=True)
        t0 = time.time()
        procs = []
        for i in range(shards):
            cmd = [binp] + args + ["--tier", self.tier, "--seed", str(self.seed), "--shard", f"{i}/{shards}",
                                    "--budget", str(budget_s), "--out", sdir]
            outp = open(os.path.join(sdir, f"out.{i}"), "wb")
            errp = open(os.path.join(sdir, f"err.{i}"), "wb")
            p = subprocess.Popen(cmd, stdout=outp, stderr=errp, cwd=sdir, env=dict(os.environ, ASAN_OPTIONS="detect_leaks=0:abort_on_error=1"))
            errp.close()
            procs.append((i, p, outp, cmd, 0))
        hard = budget_s * hard_factor + 120
        stage = dict(name=name, scale=scale, shards=shards, crashes=0, watchdog=0)
        pending = procs
        while pending:
            nxt = []
            for (i, p, outp, cmd, resumes) in pending:
                rc = p.poll()
                if rc is None:
                    if time.time() - t0 > hard:
                        p.kill()
                        p.wait()
                        outp.close()
                        stage["watchdog"] += 1
                        self.inconc.append(dict(what="watchdog", stage=name, shard=i))
                    else:
                        nxt.append((i, p, outp, cmd, resumes))
                    continue
                outp.close()
                if rc == 0:
                    continue
                if rc == 2:
                    raise HarnessError(f"stage {name} shard {i}: harness error (exit 2)")
                # abnormal death: attribute to the journalled case, then resume after it
                jpath = os.path.join(sdir, f"journal.{i}")
                case = None
                try:
                    case = json.loads(open(jpath).read().strip() or "null")
                except Exception:
                    case = None
                sig = -rc if rc < 0 else rc
                if rc == 3:
                    stage["watchdog"] += 1
                    self.inconc.append(dict(what="case exceeded the wall-clock watchdog", stage=name, shard=i, case=case))
                else:
                    stage["crashes"] += 1
                if rc == 3:
                    pass
                elif rc == 4:
                    # progress monitor: CPU burnt with no observable step (see ctx.rs)
                    self.record_crash(scale, case, 0, name, "", kind="spin-no-progress")
                elif sig == signal.SIGKILL:
                    self.inconc.append(dict(what="killed (SIGKILL, probably out of memory)", stage=name, shard=i, case=case))
                else:
                    tail = ""
                    try:
                        with open(os.path.join(sdir, f"err.{i}"), "rb") as ef:
                            ef.seek(0, 2)
                            ef.seek(max(0, ef.tell() - 3000))
                            tail = ef.read().decode(errors="replace")
                    except Exception:
                        pass
                    self.record_crash(scale, case, sig, name, tail)
                if case is not None and resumes < 200:
                    cmd2 = [c for c in cmd]
                    if "--resume-after" in cmd2:
                        j = cmd2.index("--resume-after")
                        cmd2[j + 1] = str(case["i"])
                    else:
                        cmd2 += ["--resume-after", str(case["i"])]
                    outp2 = open(os.path.join(sdir, f"out.{i}"), "ab")
                    errp2 = open(os.path.join(sdir, f"err.{i}"), "ab")
                    p2 = subprocess.Popen(cmd2, stdout=outp2, stderr=errp2, cwd=sdir, env=dict(os.environ, ASAN_OPTIONS="detect_leaks=0:abort_on_error=1"))
                    errp2.close()
                    nxt.append((i, p2, outp2, cmd2, resumes + 1))
            pending = nxt
            if pending:
                time.sleep(0.05)
        # merge
        for i in range(shards):
            self.merge_output(os.path.join(sdir, f"out.{i}"), stage)
        for fn in os.listdir(sdir):
            if fn.startswith("fps."):
                a = array.array("Q")
                with open(os.path.join(sdir, fn), "rb") as f:
                    data = f.read()
                a.frombytes(data[: len(data) // 8 * 8])
                self.fps.update(a)
        stage["wall_s"] = round(time.time() - t0, 2)
        self.stages.append(stage)
        log(f"[stage] {name}: {stage.get('evaluations', 0)} evaluations, {stage.get('viol', 0)} discrepancy records, "
            f"{stage['crashes']} process deaths, {stage['wall_s']}s")
        return stage

    def record_crash(self, scale, case, sig, stage, stderr_tail="", kind=None):
        inner = (case or {}).get("case") or {}
        prop = inner.get("prop", self.prop)
        spin = kind is not None
        kind = kind or "abort"
        m = None if spin else re.search(r"ERROR: AddressSanitizer: ([a-zA-Z-]+)", stderr_tail)
        if m:
            kind = "asan-" + m.group(1)
        elif not spin and "stack overflow" in stderr_tail:
            kind = "stack-overflow"
        if scale == "asan":
            scale = "prod"  # same constants, instrumented build
        rec = dict(k="viol", prop="C08" if self.prop != "C02" and prop != "C02" else "C02",
                   sig=(f"{kind}:{prop}" if spin else f"{kind}:signal{sig}:{prop}"), scale=scale, scenario=inner.get("scenario"),
                   detail=dict(signal=sig, stage=stage, stderr_tail=stderr_tail[-1200:]), **{"from": prop})
        if self.prop == "C08":
            rec["prop"] = "C08"
        self.viols.append(rec)

    def merge_output(self, path, stage):
        try:
            f = open(path, "r", errors="replace")
        except FileNotFoundError:
            return
        with f:
            for line in f:
                line = line.strip()
                if not line.startswith("{"):
                    continue
                try:
                    rec = json.loads(line)
                except Exception:
                    continue
                k = rec.get("k")
                if k == "stats":
                    self.evaluations += rec["evaluations"]
                    stage["evaluations"] = stage.get("evaluations", 0) + rec["evaluations"]
                    for name, n in rec["counters"].items():
                        if name.startswith("max:"):
                            self.counters[name] = max(self.counters.get(name, 0), n)
                        else:
                            self.counters[name] = self.counters.get(name, 0) + n
                    for s in rec["samples"]:
                        if len(self.samples) < 6:
                            s = dict(s)
                            s["_scale"] = rec["scale"]
                            self.samples.append(s)
                    if rec.get("timed_out"):
                        self.timed_out_shards += 1
                elif k == "viol":
                    stage["viol"] = stage.get("viol", 0) + 1
                    if stage.get("scale") == "asan":
                        rec["scale"] = "prod"
                    self.viols.append(rec)
                elif k == "inconc":
                    self.inconc.append(rec)

    # ------------------------------------------------------------ candidates -> production
    def replay_candidates_at_prod(self, prod_bin, budget_s=240):
        """Discrepancies seen with scaled constants are re-instantiated with the
        production constants; only a reproduction there is a verdict."""
        cands = [v for v in self.viols if v.get("scale") != "prod"]
        if not cands:
            return
        per_sig = {}
        chosen = []
        for v in cands:
            key = (v["prop"], v["sig"])
            per_sig[key] = per_sig.get(key, 0) + 1
            if per_sig[key] <= 3 and v.get("scenario") is not None:
                chosen.append(v)
        chosen = chosen[:600]
        cfile = os.path.join(self.dir, "candidates.jsonl")
        with open(cfile, "w") as f:
            for i, v in enumerate(chosen):
                f.write(json.dumps({"prop": v["prop"], "from": v.get("from", v["prop"]), "scenario": v["scenario"], "cand": i}) + "\n")
        before = len(self.viols)
        self.run_stage(prod_bin, "prod", ["replay", "--file", cfile], budget_s, name="replay-candidates@prod")
        reproduced = set()
        for v in self.viols[before:]:
            if v.get("scale") == "prod" and v.get("cand") is not None:
                reproduced.add(v["cand"])
                v["found_at_scale"] = chosen[v["cand"]].get("scale")
        sigs_repro = set((v["prop"], v["sig"]) for v in self.viols if v.get("scale") == "prod")
        for i in reproduced:
            sigs_repro.add((chosen[i]["prop"], chosen[i]["sig"]))
        scale_only = {}
        for v in cands:
            key = (v["prop"], v["sig"])
            if key not in sigs_repro:
                scale_only[key] = scale_only.get(key, 0) + 1
        self.extra["scaled_candidates"] = len(cands)
        self.extra["scaled_candidate_signatures"] = len(per_sig)
        self.extra["candidates_replayed_at_production"] = len(chosen)
        self.extra["candidates_reproduced_at_production"] = len(reproduced)
        self.extra["scale_only_signatures"] = [f"{p}|{s} x{n}" for (p, s), n in sorted(scale_only.items())][:40]
        for (p, s), n in sorted(scale_only.items()):
            if p == self.prop:
                self.inconc.append(dict(what="scale_only", prop=p, sig=s, count=n))

    # ------------------------------------------------------------ verdict
    def finish(self, level, rule, musthit=(), assumptions=(), explanation=None, softhit=()):
        known = load_known()
        mine = [v for v in self.viols if v.get("scale") == "prod" and v["prop"] == self.prop]
        other = [v for v in self.viols if v.get("scale") == "prod" and v["prop"] != self.prop]
        for v in other:
            key = f"{v['prop']}|{v['sig']}"
            self.forwarded[key] = self.forwarded.get(key, 0) + 1
        by_sig = {}
        for v in mine:
            by_sig.setdefault(v["sig"], []).append(v)
        new_viol = 0
        known_printed = []
        os.makedirs(os.path.join(VERIF, "replays"), exist_ok=True)
        for sig, recs in sorted(by_sig.items()):
            kf = match_known(known, self.prop, sig)
            if kf is not None:
                line = f"KNOWN-FINDING: property={self.prop} {kf['what']} [signature {sig}; seen {len(recs)}x]"
                log(line)
                known_printed.append(sig)
                continue
            new_viol += 1
            h = hashlib.sha256((self.prop + sig).encode()).hexdigest()[:12]
            rp = os.path.join(VERIF, "replays", f"{self.prop}-{h}.json")
            with open(rp, "w") as f:
                json.dump(dict(property=self.prop, signature=sig, tier=self.tier, seed=self.seed,
                               from_check=recs[0].get("from", self.prop), scenario=recs[0].get("scenario"),
                               detail=recs[0].get("detail"), occurrences=len(recs),
                               found_at_scale=recs[0].get("found_at_scale", "prod")), f, indent=1)
            log(f"VIOLATION property={self.prop} replay={rp}")
            log(f"  signature: {sig}")
            log(f"  detail: {json.dumps(recs[0].get('detail'))[:600]}")
        for key, n in sorted(self.forwarded.items()):
            log(f"NOTE observation forwarded to another property's check: {key} x{n}")
        for inc in self.inconc[:30]:
            log("INCONCLUSIVE " + json.dumps(inc)[:400])
        # must-hit classes: a zero means the verdict would be vacuous -> harness error
        missing = [m for m in musthit if self.counters.get(m, 0) == 0]
        # classes reached by steering a data-dependent quantity (a search that may not converge for a given
        # seed): not reaching one is said, it is neither a verdict nor a harness error
        soft_missing = [m for m in softhit if self.counters.get(m, 0) == 0]
        if soft_missing:
            self.inconc.append(dict(what="steered alignment not reached by the search", classes=soft_missing))
            log("INCONCLUSIVE " + json.dumps(self.inconc[-1]))
        coverage = dict(
            evaluations=self.evaluations,
            distinct_nontrivial=len(self.fps),
            rule=rule,
            samples=self.samples[:6],
            exhaustive=False,
            counters=self.counters,
            stages=self.stages,
            must_hit={m: self.counters.get(m, 0) for m in list(musthit) + list(softhit)},
            violations_new=new_viol,
            known_findings_seen=known_printed,
            forwarded_observations=self.forwarded,
            inconclusive=len(self.inconc),
            inconclusive_samples=self.inconc[:10],
            timed_out_shards=self.timed_out_shards,
        )
        coverage.update(self.extra)
        if explanation:
            coverage["explanation"] = explanation
        ev = dict(property_id=self.prop, tier=self.tier, seed=self.seed, level=level, coverage=coverage,
                  assumptions=list(assumptions), wall_s=round(time.time() - self.t0, 2), violations=new_viol)
        os.makedirs(os.path.join(VERIF, "evidence"), exist_ok=True)
        with open(os.path.join(VERIF, "evidence", f"{self.prop}.json"), "w") as f:
            json.dump(ev, f, indent=1, sort_keys=True)
        log(f"[evidence] {self.prop}: {self.evaluations} evaluations, {len(self.fps)} distinct non-trivial, "
            f"{new_viol} new violation signature(s), {len(known_printed)} known finding(s), {len(self.inconc)} inconclusive, "
            f"{ev['wall_s']}s")
        self.cleanup()
        if new_viol:
            # a violation may well be the reason why later classes were never reached
            if missing:
                log(f"NOTE must-hit classes not observed in this (violating) run: {missing}")
            return 1
        if missing and self.timed_out_shards > 0:
            # the time budget ran out before the workload was finished: say so, do not guess
            log(f"INCONCLUSIVE time budget exhausted in {self.timed_out_shards} shard(s) before these classes were observed: {missing}")
            return 0
        if missing:
            log(f"HARNESS-ERROR must-hit classes not observed: {missing}")
            return 2
        if self.evaluations == 0 or len(self.fps) < 2:
            log("HARNESS-ERROR nothing was observed")
            return 2
        return 1 if new_viol else 0


def load_known():
    """known_findings.txt: one entry per line,
         known: property=<id> signature=<exact signature> <what fails>
         fixed: property=<id> <commit> <what failed>
       `fixed` entries suppress nothing; the file is never written at run time."""
    p = os.path.join(VERIF, "known_findings.txt")
    out = []
    if not os.path.exists(p):
        return out
    for line in open(p):
        line = line.strip()
        m = re.match(r"known: property=(\S+) signature=(\S+) (.*)", line)
        if m:
            out.append(dict(status="known", property=m.group(1), signature=m.group(2), what=m.group(3)))
    return out


def match_known(known, prop, sig):
    for k in known:
        if k["status"] == "known" and k["property"] == prop and k["signature"] == sig:
            return k
    return None
