#!/bin/bash
# confirmation of the C20 seeded changes (C demos): usage lib/confirm_seed_c20.sh <n>
set -u
n="$1"; wt=${SEED_ROOT:-/tmp/seed}/${PROP:-C20}; sd=$wt/SEEDED; out=/verif/seeded/${PROP:-C20}-${OUT_TAG:-}$n
mkdir -p "$out"; cp "$sd/patch$n.diff" "$out/patch.diff"; cp "$sd/demo$n.c" "$out/demo.c"; cp "$sd/run_demo.sh" "$out/run_demo.sh"; cp "$sd"/*.h "$out/" 2>/dev/null; cp "$sd/NOTES.md" "$out/NOTES.md"
export CARGO_NET_OFFLINE=true
cd "$wt" || exit 2
git checkout -q -- .
log="$out/confirm.log"; : > "$log"
echo "### demos WITHOUT the change" >> "$log"; bash SEEDED/run_demo.sh >> "$log" 2>&1
without=$(grep -c "demo$n: PASS" "$log")
git apply "$out/patch.diff" || { echo '{"applies": false}' > "$out/confirm.json"; exit 1; }
echo "### demos WITH the change" >> "$log"; bash SEEDED/run_demo.sh >> "$log" 2>&1
withc=$(grep -c "demo$n: FAIL" "$log")
cargo nextest run --workspace --no-fail-fast --offline > "$out/suite.log" 2>&1
failed=$(grep -E "^\s+FAIL " "$out/suite.log" | grep -v test_repair_auth_unauth | sort -u | wc -l)
summary=$(grep -E "Summary" "$out/suite.log" | tail -1); rm -f "$out/suite.log"
git checkout -q -- .
python3 - "$out" "$without" "$withc" "$failed" "$summary" <<'PY'
import json,sys
out,wo,wi,failed,summary=sys.argv[1:6]
json.dump({"applies":True,"demo_passes_without_change":int(wo)>=1,"demo_fails_with_change":int(wi)>=1,"suite_failures_other_than_known_flaky":int(failed),"suite_summary":summary.strip()},open(out+"/confirm.json","w"),indent=1)
PY
cat "$out/confirm.json"
